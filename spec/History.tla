------------------------------ MODULE History ------------------------------
(***************************************************************************)
(* C11: one `Command` value re-used through the by-reference entry point.  *)
(* The object state that survives a call (command.rs: the Built flag of    *)
(* every level, `bin_name`, the names `_build_subcommand` writes into a    *)
(* subcommand each time it is dispatched, and the levels that a failing    *)
(* unknown-flag parse builds through `did_you_mean_flag`) is explicit;     *)
(* actions are the public calls.  What a call *returns* is `Run` on the    *)
(* definition - the specification's statement of history independence -    *)
(* and the invariants say the state only ever moves in ways that cannot    *)
(* be observed through a later call.                                       *)
(***************************************************************************)
EXTENDS Parser

\* object state: built (top level), binSet, subs: set of subcommand paths already built, named: paths whose
\* usage/bin names were written by _build_subcommand, fullyBuilt (Command::build ran)
FreshObj == [built |-> FALSE, binSet |-> FALSE, subsBuilt |-> {}, named |-> {}, full |-> FALSE]

\* the chain of subcommand names a parse dispatched into (from the model's level result)
RECURSIVE DispatchPath(_, _)
DispatchPath(lv, prefix) ==
  IF lv.sub.set /\ ~lv.sub.ext THEN {Append(prefix, lv.sub.name)} \cup DispatchPath(lv.sub.lv, Append(prefix, lv.sub.name)) ELSE {}

DirectSubs(def) == {<<def.subs[i].name>> : i \in 1..Len(def.subs)}
AllPaths(def) ==
  LET RECURSIVE P(_, _)
      P(d, prefix) == UNION {{Append(prefix, d.subs[i].name)} \cup P(d.subs[i], Append(prefix, d.subs[i].name)) : i \in 1..Len(d.subs)}
  IN P(def, <<>>)

\* did_you_mean_error (parser.rs 1376-1441) builds every direct subcommand of the level that met an
\* unknown long flag, without giving them names
UnknownLongAt(def, argv) == LET o == Run(def, argv) IN o.outcome = "Err" /\ o.kind = "UnknownArgument"
                              /\ \E i \in 1..Len(argv) : Len(argv[i]) > 2 /\ argv[i][1] = 45 /\ argv[i][2] = 45

ApplyOp(def, h, op) ==
  CASE op.k = "parse" ->
         LET top == RunTop(def, op.argv) dp == DispatchPath(top, <<>>) IN
         [h EXCEPT !.built = TRUE, !.binSet = TRUE, !.subsBuilt = @ \cup dp \cup (IF UnknownLongAt(def, op.argv) THEN DirectSubs(def) ELSE {}),
                   !.named = @ \cup dp]
    [] op.k = "build" -> [h EXCEPT !.built = TRUE, !.full = TRUE, !.subsBuilt = AllPaths(def), !.named = AllPaths(def)]
    [] op.k \in {"render_help", "render_long_help", "render_usage"} -> [h EXCEPT !.built = TRUE]
    [] op.k = "clone" -> h
    [] OTHER -> h

\* what the call returns: independent of h by specification
OpObs(def, op) == IF op.k = "parse" THEN Run(def, op.argv)
                  ELSE [outcome |-> "Ok", kind |-> "", stderr |-> FALSE, exit |-> 0, chain |-> <<>>, site |-> ""]
=============================================================================
