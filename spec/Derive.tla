-------------------------------- MODULE Derive ------------------------------
(***************************************************************************)
(* C15: what `#[derive(Parser)]` means, for the struct descriptions of the *)
(* corpus (lib/corpus_gen.py):                                             *)
(*   DeriveCmd(desc)  - the command the macro generates                    *)
(*                      (clap_derive item.rs default_action,               *)
(*                       derives/args.rs gen_augment, subcommand.rs),      *)
(*   Extract          - the field values taken out of the matches          *)
(*                      (derives/args.rs gen_parsers),                     *)
(*   Print            - a value as a canonical argv,                       *)
(*   the update rule  - only fields named on the command line change.      *)
(* A value is a sequence of [f (field name), p (present / Some), v (Seq of *)
(* byte strings)].                                                         *)
(***************************************************************************)
EXTENDS Props

\* ---- DeriveCmd ----------------------------------------------------------------
EnumVP(desc) == [k |-> "possible", lo |-> 0, hi |-> 0, pvs |-> [i \in 1..Len(desc.enum.variants) |-> desc.enum.variants[i].name],
                 pv_hide |-> [i \in 1..Len(desc.enum.variants) |-> FALSE], pv_help |-> [i \in 1..Len(desc.enum.variants) |-> <<>>],
                 pv_aliases |-> [i \in 1..Len(desc.enum.variants) |-> desc.enum.variants[i].aliases]]
U16VP == [k |-> "int", lo |-> 0, hi |-> 65535, pvs |-> <<>>, pv_hide |-> <<>>, pv_help |-> <<>>, pv_aliases |-> <<>>]

FieldArg(desc, f, forUpdate) ==
  LET base == [desc.argt EXCEPT !.id = f.name, !.idb = f.nameb, !.short = f.short, !.long = f.long, !.global = f.global, !.delim = f.delim]
      sh == f.shape
  IN CASE sh = "bool" -> [base EXCEPT !.action = "SetTrue"]
       [] sh = "counter" -> [base EXCEPT !.action = "Count"]
       [] sh = "req" -> [base EXCEPT !.action = "Set", !.required = ~forUpdate]
       [] sh = "opt" -> [base EXCEPT !.action = "Set"]
       [] sh = "optopt" -> [base EXCEPT !.action = "Set", !.nset = TRUE, !.nmin = 0, !.nmax = 1]
       [] sh = "vec" -> [base EXCEPT !.action = "Append"]
       [] sh = "optvec" -> [base EXCEPT !.action = "Append"]
       [] sh = "deft" -> [base EXCEPT !.action = "Set", !.defaults = <<f.default>>, !.vp = U16VP]
       [] sh = "enum" -> [base EXCEPT !.action = "Set", !.required = ~forUpdate, !.vp = EnumVP(desc), !.ignore_case = TRUE]
       [] sh = "optenum" -> [base EXCEPT !.action = "Set", !.vp = EnumVP(desc), !.ignore_case = TRUE]
       [] sh = "pos" -> [base EXCEPT !.action = "Set"]
       [] sh = "posvec" -> [base EXCEPT !.action = "Append", !.nset = TRUE, !.nmin = 1, !.nmax = INF]

FieldArgs(desc, fs, forUpdate) == [i \in 1..Len(fs) |-> FieldArg(desc, fs[i], forUpdate)]
\* every struct (and struct-like variant) with fields gets an ArgGroup named after it holding its own fields, multiple(true)
StructGroup(desc, id, fs) == IF fs = <<>> THEN <<>> ELSE <<[desc.groupt EXCEPT !.id = id, !.args = [i \in 1..Len(fs) |-> fs[i].name], !.multiple = TRUE]>>
NestedCmd(desc, nv, forUpdate) ==
  [desc.cmdt EXCEPT !.name = nv.name, !.args = FieldArgs(desc, nv.fields, forUpdate), !.groups = StructGroup(desc, nv.rust, nv.fields)]
\* a `#[command(subcommand)] Variant(Inner)` variant: the inner enum's subcommands, one of them required
VariantCmd(desc, v, forUpdate) ==
  [desc.cmdt EXCEPT !.name = v.name, !.aliases = v.aliases, !.args = FieldArgs(desc, v.fields, forUpdate),
                    !.groups = StructGroup(desc, v.rust, v.fields),
                    !.subs = [i \in 1..Len(v.nested) |-> NestedCmd(desc, v.nested[i], forUpdate)],
                    !.s = [desc.cmdt.s EXCEPT !.subcommand_required = v.nested # <<>> /\ ~forUpdate, !.arg_required_else_help = v.nested # <<>> /\ ~forUpdate]]
DeriveCmd(desc, forUpdate) ==
  LET required == desc.subs.present /\ ~desc.subs.optional /\ ~forUpdate IN
  [desc.cmdt EXCEPT !.name = <<112, 114, 111, 103>>,
                    !.args = FieldArgs(desc, desc.fields, forUpdate) \o FieldArgs(desc, desc.flatten.fields, forUpdate),
                    \* (a struct with a #[command(flatten)] field gets an *empty* group: "validation isn't ready for nested groups")
                    !.groups = (IF desc.flatten.fields # <<>> THEN <<>> ELSE StructGroup(desc, desc.type, desc.fields))
                               \o StructGroup(desc, desc.flatten.rust, desc.flatten.fields),
                    !.subs = [i \in 1..Len(desc.subs.variants) |-> VariantCmd(desc, desc.subs.variants[i], forUpdate)],
                    \* a required subcommand field: subcommand_required + arg_required_else_help
                    !.s = [desc.cmdt.s EXCEPT !.subcommand_required = required, !.arg_required_else_help = required]]

\* ---- Extract (gen_parsers) ------------------------------------------------------
FV(f, p, v) == [f |-> f, p |-> p, v |-> v]
\* the enum variant a raw value denotes (name or alias, ASCII case-insensitively)
VariantOf(desc, raw) ==
  LET hits == {i \in 1..Len(desc.enum.variants) :
                 LowerAscii(desc.enum.variants[i].name) = LowerAscii(raw)
                 \/ \E k \in 1..Len(desc.enum.variants[i].aliases) : LowerAscii(desc.enum.variants[i].aliases[k]) = LowerAscii(raw)}
  IN IF hits = {} THEN raw ELSE desc.enum.variants[CHOOSE i \in hits : \A j \in hits : i <= j].name
ExtractField(desc, E, f, prefix) ==
  LET has == EHas(E, f.name)
      vals == IF has THEN EVals(E, f.name) ELSE <<>>
      first == IF vals = <<>> THEN <<>> ELSE <<vals[1]>>
      name == prefix \o f.name
      sh == f.shape
  IN CASE sh \in {"bool", "counter", "req", "deft"} -> FV(name, TRUE, first)
       [] sh \in {"opt", "pos"} -> FV(name, has, first)
       [] sh = "optopt" -> FV(name, has, first)
       [] sh \in {"vec", "posvec"} -> FV(name, TRUE, vals)
       [] sh = "optvec" -> FV(name, has, vals)
       [] sh = "enum" -> FV(name, TRUE, IF first = <<>> THEN <<>> ELSE <<VariantOf(desc, first[1])>>)
       [] sh = "optenum" -> FV(name, has, IF first = <<>> THEN <<>> ELSE <<VariantOf(desc, first[1])>>)
\* TLC's strings cannot be concatenated: field names of subcommand variants are reported as [sub |-> TRUE, f |-> name]
ExtractFields(desc, E, fs) == [i \in 1..Len(fs) |-> ExtractField(desc, E, fs[i], "")]
Extract(desc, obs) ==     \* obs.outcome = "Ok"
  LET top == obs.chain[1]
      own == ExtractFields(desc, top, desc.fields) \o ExtractFields(desc, top, desc.flatten.fields)
      none == [top |-> own, cmd |-> <<>>, sub |-> <<>>, cmd2 |-> <<>>, sub2 |-> <<>>]
  IN IF ~desc.subs.present \/ ~top.has_sub THEN none
     ELSE LET vi == CHOOSE i \in 1..Len(desc.subs.variants) : desc.subs.variants[i].name = top.sub
              v == desc.subs.variants[vi]
              l2 == obs.chain[2]
          IN IF v.nested = <<>> \/ ~l2.has_sub
             THEN [none EXCEPT !.cmd = top.sub, !.sub = ExtractFields(desc, l2, v.fields)]
             ELSE LET ni == CHOOSE i \in 1..Len(v.nested) : v.nested[i].name = l2.sub IN
                  [none EXCEPT !.cmd = top.sub, !.cmd2 = l2.sub, !.sub2 = ExtractFields(desc, obs.chain[3], v.nested[ni].fields)]

\* ---- PrintValue: a value back to a canonical argv ---------------------------------------
DDASH == <<45, 45>>
IsPosField(f) == f.long = <<>> /\ f.short = <<>>
PrintField(f, fv) ==
  IF IsPosField(f) THEN <<>> ELSE
  LET flag == IF f.long # <<>> THEN DDASH \o f.long ELSE <<45>> \o f.short
      sh == f.shape IN
  CASE sh = "bool" -> IF fv.v = <<BoolStr(TRUE)>> THEN <<flag>> ELSE <<>>
    [] sh = "counter" -> [i \in 1..DecVal(fv.v[1]) |-> flag]
    [] sh \in {"req", "deft", "enum"} -> <<flag, fv.v[1]>>
    [] sh \in {"opt", "optenum"} -> IF fv.p THEN <<flag, fv.v[1]>> ELSE <<>>
    [] sh = "optopt" -> IF ~fv.p THEN <<>> ELSE IF fv.v = <<>> THEN <<flag>> ELSE <<flag \o <<61>> \o fv.v[1]>>
    [] sh \in {"vec", "optvec"} -> Concat([i \in 1..Len(fv.v) |-> <<flag, fv.v[i]>>])
    [] OTHER -> <<>>                               \* positionals are printed last
PrintPositionals(fs, vals) ==
  Concat([i \in 1..Len(fs) |-> IF IsPosField(fs[i]) THEN vals[i].v ELSE <<>>])
PrintFields(fs, vals) == Concat([i \in 1..Len(fs) |-> PrintField(fs[i], vals[i])])
PrintValue(desc, value) ==
  LET fs == desc.fields \o desc.flatten.fields IN
  PrintFields(fs, value.top) \o PrintPositionals(fs, value.top)
  \o (IF value.cmd = <<>> THEN <<>>
      ELSE LET vi == CHOOSE i \in 1..Len(desc.subs.variants) : desc.subs.variants[i].name = value.cmd
               v == desc.subs.variants[vi] IN
           <<value.cmd>> \o PrintFields(v.fields, value.sub) \o PrintPositionals(v.fields, value.sub)
           \o (IF value.cmd2 = <<>> THEN <<>>
               ELSE LET ni == CHOOSE i \in 1..Len(v.nested) : v.nested[i].name = value.cmd2 IN
                    <<value.cmd2>> \o PrintFields(v.nested[ni].fields, value.sub2) \o PrintPositionals(v.nested[ni].fields, value.sub2)))
\* an optional-value option directly before a positional would swallow it; `--` is not needed otherwise
\* (at every level: the top struct, the variant's fields, the nested variant's fields)
NoDashValues(vals) == \A i \in 1..Len(vals) : \A k \in 1..Len(vals[i].v) : vals[i].v[k] = <<>> \/ vals[i].v[k][1] # 45
NoEmptyOptVec(fs, vals) == ~(\E i \in 1..Len(fs) : fs[i].shape = "optvec" /\ vals[i].p /\ vals[i].v = <<>>)
Printable(desc, value) ==
  /\ NoDashValues(value.top) /\ NoDashValues(value.sub) /\ NoDashValues(value.sub2)
  /\ NoEmptyOptVec(desc.fields \o desc.flatten.fields, value.top)
  /\ (value.cmd # <<>> =>
        LET v == desc.subs.variants[CHOOSE i \in 1..Len(desc.subs.variants) : desc.subs.variants[i].name = value.cmd] IN
        /\ (value.cmd2 = <<>> => NoEmptyOptVec(v.fields, value.sub))
        /\ (value.cmd2 # <<>> => NoEmptyOptVec(v.nested[CHOOSE i \in 1..Len(v.nested) : v.nested[i].name = value.cmd2].fields, value.sub2)))

\* ---- the update rule ------------------------------------------------------------------------
\* fields named on the command line of the update (explicit source in the update's own matches)
Named(E, f) == EHas(E, f.name) /\ EGet(E, f.name).src = "cli"
UpdateField(desc, old, E, f) == IF Named(E, f) THEN ExtractField(desc, E, f, "") ELSE old
UpdateTop(desc, oldTop, E) ==
  LET fs == desc.fields \o desc.flatten.fields IN [i \in 1..Len(fs) |-> UpdateField(desc, oldTop[i], E, fs[i])]
\* ---- the update rule below a subcommand field ----------------------------------------------------------------
\* (derives/subcommand.rs gen_update_from_arg_matches) the update line names no subcommand: nothing below changes; it names
\* the variant the value already holds: that variant's fields follow the field rule; it names another variant: the value
\* is replaced by that variant parsed from the update's matches, which needs every required field of it (else the update
\* fails, and what it had already written to earlier fields is not prescribed).  Returns [ok, v].
ReqFieldsPresent(E, fs) == \A i \in 1..Len(fs) : fs[i].shape \in {"req", "enum"} => EHas(E, fs[i].name)
VariantByName(vs, n) == vs[CHOOSE i \in 1..Len(vs) : vs[i].name = n]
UpdateValue(desc, value, obsU) ==     \* obsU.outcome = "Ok"
  LET E1 == obsU.chain[1]
      v1 == [value EXCEPT !.top = UpdateTop(desc, value.top, E1)]
  IN IF ~desc.subs.present \/ ~E1.has_sub THEN [ok |-> TRUE, v |-> v1]
     ELSE LET va == VariantByName(desc.subs.variants, E1.sub) E2 == obsU.chain[2] IN
          IF va.nested = <<>>
          THEN IF value.cmd = va.name
               THEN [ok |-> TRUE, v |-> [v1 EXCEPT !.sub = [i \in 1..Len(va.fields) |-> UpdateField(desc, value.sub[i], E2, va.fields[i])]]]
               ELSE IF ReqFieldsPresent(E2, va.fields)
               THEN [ok |-> TRUE, v |-> [v1 EXCEPT !.cmd = va.name, !.sub = ExtractFields(desc, E2, va.fields), !.cmd2 = <<>>, !.sub2 = <<>>]]
               ELSE [ok |-> FALSE, v |-> value]
          ELSE \* a `#[command(subcommand)] V(Inner)` variant: one level further down
               IF ~E2.has_sub
               THEN (IF value.cmd = va.name THEN [ok |-> TRUE, v |-> v1] ELSE [ok |-> FALSE, v |-> value])
               ELSE LET nv == VariantByName(va.nested, E2.sub) E3 == obsU.chain[3] IN
                    IF value.cmd = va.name /\ value.cmd2 = nv.name
                    THEN [ok |-> TRUE, v |-> [v1 EXCEPT !.sub2 = [i \in 1..Len(nv.fields) |-> UpdateField(desc, value.sub2[i], E3, nv.fields[i])]]]
                    ELSE IF ReqFieldsPresent(E3, nv.fields)
                    THEN [ok |-> TRUE, v |-> [v1 EXCEPT !.cmd = va.name, !.sub = <<>>, !.cmd2 = nv.name, !.sub2 = ExtractFields(desc, E3, nv.fields)]]
                    ELSE [ok |-> FALSE, v |-> value]
=============================================================================
