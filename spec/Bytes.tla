------------------------------- MODULE Bytes -------------------------------
(***************************************************************************)
(* Byte strings as sequences of 0..255, with the operations clap_lex's     *)
(* `OsStrExt` (clap_lex/src/ext.rs) and Rust's `str::from_utf8` define on  *)
(* them.  Everything here is the *meaning* ("the same operation on the     *)
(* underlying bytes", property C14) written without reference to the code; *)
(* the code-shaped transcriptions live in Lex.tla.                         *)
(***************************************************************************)
EXTENDS Naturals, Integers, Sequences, FiniteSets

Byte == 0..255

Min2(a, b) == IF a <= b THEN a ELSE b
Max2(a, b) == IF a >= b THEN a ELSE b

\* SubSeq with 0-based half-open range [from, to) like a Rust slice
Slice(b, from, to) == SubSeq(b, from + 1, to)
From(b, from) == SubSeq(b, from + 1, Len(b))

StartsWith(b, p) == Len(p) <= Len(b) /\ SubSeq(b, 1, Len(p)) = p
EndsWith(b, p) == Len(p) <= Len(b) /\ SubSeq(b, Len(b) - Len(p) + 1, Len(b)) = p

None == [none |-> TRUE]
Some(v) == [none |-> FALSE, v |-> v]
IsNone(o) == o.none
IsSome(o) == ~o.none

\* byte offset (0-based) of the first occurrence of the non-empty needle, or -1
Find(h, n) ==
  LET cands == {x \in 0..(Len(h) - Len(n)) : Slice(h, x, x + Len(n)) = n}
  IN IF Len(n) > Len(h) \/ cands = {} THEN -1
     ELSE CHOOSE x \in cands : \A y \in cands : x <= y

Contains(h, n) == Find(h, n) >= 0

StripPrefix(b, p) == IF StartsWith(b, p) THEN Some(From(b, Len(p))) ELSE None

SplitOnce(h, n) ==
  LET i == Find(h, n)
  IN IF i < 0 THEN None ELSE Some(<<Slice(h, 0, i), From(h, i + Len(n))>>)

\* str::split semantics: k occurrences (non-overlapping, leftmost first) give k+1 pieces
RECURSIVE Split(_, _)
Split(h, n) ==
  LET i == Find(h, n)
  IN IF i < 0 THEN <<h>> ELSE <<Slice(h, 0, i)>> \o Split(From(h, i + Len(n)), n)

RECURSIVE Concat(_)
Concat(ss) == IF ss = <<>> THEN <<>> ELSE Head(ss) \o Concat(Tail(ss))

RECURSIVE Join(_, _)
Join(ss, sep) == IF Len(ss) = 0 THEN <<>>
                 ELSE IF Len(ss) = 1 THEN ss[1]
                 ELSE ss[1] \o sep \o Join(Tail(ss), sep)

(***************************************************************************)
(* UTF-8 (RFC 3629, exactly what core::str::from_utf8 accepts: no          *)
(* overlongs, no surrogates, <= U+10FFFF).                                 *)
(***************************************************************************)
Cont(x) == x >= 128 /\ x <= 191

\* length of the well-formed sequence starting at 1-based index i, 0 if none
SeqLenAt(b, i) ==
  LET n == Len(b)
      x == b[i]
      c(k) == i + k <= n /\ Cont(b[i + k])
  IN IF x <= 127 THEN 1
     ELSE IF x >= 194 /\ x <= 223 THEN (IF c(1) THEN 2 ELSE 0)
     ELSE IF x = 224 THEN (IF i + 2 <= n /\ b[i+1] >= 160 /\ b[i+1] <= 191 /\ c(2) THEN 3 ELSE 0)
     ELSE IF (x >= 225 /\ x <= 236) \/ x = 238 \/ x = 239 THEN (IF c(1) /\ c(2) THEN 3 ELSE 0)
     ELSE IF x = 237 THEN (IF i + 2 <= n /\ b[i+1] >= 128 /\ b[i+1] <= 159 /\ c(2) THEN 3 ELSE 0)
     ELSE IF x = 240 THEN (IF i + 3 <= n /\ b[i+1] >= 144 /\ b[i+1] <= 191 /\ c(2) /\ c(3) THEN 4 ELSE 0)
     ELSE IF x >= 241 /\ x <= 243 THEN (IF c(1) /\ c(2) /\ c(3) THEN 4 ELSE 0)
     ELSE IF x = 244 THEN (IF i + 3 <= n /\ b[i+1] >= 128 /\ b[i+1] <= 143 /\ c(2) /\ c(3) THEN 4 ELSE 0)
     ELSE 0

RECURSIVE ValidUpToFrom(_, _)
ValidUpToFrom(b, i) ==
  IF i > Len(b) THEN Len(b)
  ELSE LET k == SeqLenAt(b, i) IN IF k = 0 THEN i - 1 ELSE ValidUpToFrom(b, i + k)

\* number of bytes in the longest valid UTF-8 prefix (Utf8Error::valid_up_to)
ValidUpTo(b) == ValidUpToFrom(b, 1)
IsUtf8(b) == ValidUpTo(b) = Len(b)

\* set of 0-based byte offsets that are character boundaries of the valid prefix
RECURSIVE BoundariesFrom(_, _)
BoundariesFrom(b, i) ==
  IF i > Len(b) THEN {Len(b)}
  ELSE LET k == SeqLenAt(b, i) IN IF k = 0 THEN {i - 1} ELSE {i - 1} \cup BoundariesFrom(b, i + k)
Boundaries(b) == BoundariesFrom(b, 1)

\* the characters (each a byte sequence) of a valid UTF-8 string
RECURSIVE CharsFrom(_, _)
CharsFrom(b, i) ==
  IF i > Len(b) THEN <<>>
  ELSE LET k == SeqLenAt(b, i) IN IF k = 0 THEN <<>> ELSE <<SubSeq(b, i, i + k - 1)>> \o CharsFrom(b, i + k)
Chars(b) == CharsFrom(b, 1)

\* all sequences over alphabet A of length <= n
StringsUpTo(A, n) == UNION {[1..k -> A] : k \in 0..n}

IsDigit(x) == x >= 48 /\ x <= 57
AsciiLower(x) == IF x >= 65 /\ x <= 90 THEN x + 32 ELSE x
LowerAscii(b) == [i \in 1..Len(b) |-> AsciiLower(b[i])]
=============================================================================
