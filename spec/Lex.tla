-------------------------------- MODULE Lex --------------------------------
(***************************************************************************)
(* clap_lex/src/lib.rs: ParsedArg classification, to_long / to_short,      *)
(* is_number, and the ShortFlags iterator as a state machine.              *)
(* Code-shaped: each operator names the function it transcribes.           *)
(***************************************************************************)
EXTENDS Bytes

DASH == 45
EQ   == 61
DOT  == 46
LC_E == 101
UC_E == 69

\* ---- ParsedArg::is_* (lib.rs 283-400) ---------------------------------
PA_IsEmpty(b)  == b = <<>>
PA_IsStdio(b)  == b = <<DASH>>
PA_IsEscape(b) == b = <<DASH, DASH>>
PA_IsLong(b)   == StartsWith(b, <<DASH, DASH>>) /\ ~PA_IsEscape(b)
PA_IsShort(b)  == StartsWith(b, <<DASH>>) /\ ~PA_IsStdio(b) /\ ~StartsWith(b, <<DASH, DASH>>)

\* is_number (lib.rs 486-522): a loop carrying (seen_dot, position_of_e)
RECURSIVE IsNumLoop(_, _, _, _)
IsNumLoop(s, i, seenDot, posE) ==     \* i is the 0-based index, posE = -1 for None
  IF i >= Len(s) THEN (IF posE >= 0 THEN posE # Len(s) - 1 ELSE TRUE)
  ELSE LET c == s[i + 1] IN
       IF IsDigit(c) THEN IsNumLoop(s, i + 1, seenDot, posE)
       ELSE IF c = DOT /\ ~seenDot /\ posE < 0 /\ i > 0 THEN IsNumLoop(s, i + 1, TRUE, posE)
       ELSE IF (c = LC_E \/ c = UC_E) /\ posE < 0 /\ i > 0 THEN IsNumLoop(s, i + 1, seenDot, i)
       ELSE FALSE
IsNumber(s) == IsNumLoop(s, 0, FALSE, -1)

\* ParsedArg::is_negative_number: to_value().ok().and_then(strip_prefix('-')).map(is_number)
PA_IsNegativeNumber(b) ==
  IsUtf8(b) /\ StartsWith(b, <<DASH>>) /\ IsNumber(Tail(b))

\* ParsedArg::to_long: None, or [flag, flagOk, hasValue, value]
PA_ToLong(b) ==
  IF ~StartsWith(b, <<DASH, DASH>>) THEN None
  ELSE LET rem == From(b, 2) IN
       IF rem = <<>> THEN None
       ELSE LET sp == SplitOnce(rem, <<EQ>>)
                flag == IF IsSome(sp) THEN sp.v[1] ELSE rem
            IN Some([flag |-> flag, flagOk |-> IsUtf8(flag),
                     hasValue |-> IsSome(sp),
                     value |-> IF IsSome(sp) THEN sp.v[2] ELSE <<>>])

\* ParsedArg::to_short: None or the remainder handed to ShortFlags::new
PA_ToShort(b) ==
  IF ~StartsWith(b, <<DASH>>) THEN None
  ELSE LET rem == Tail(b) IN
       IF StartsWith(rem, <<DASH>>) THEN None
       ELSE IF rem = <<>> THEN None
       ELSE Some(rem)

\* ---- ShortFlags (lib.rs 404-484) --------------------------------------
\* state: inner bytes, valid = len of utf8 prefix, pos = byte offset of the
\* CharIndices iterator inside the prefix (pos = valid <=> iterator exhausted;
\* next_value_os replaces it by "".char_indices(), also exhausted),
\* inv = invalid_suffix.is_some()
ShNew(inner) ==
  LET v == ValidUpTo(inner)
  IN [inner |-> inner, valid |-> v, pos |-> 0, inv |-> v < Len(inner)]

ShSuffix(sf) == From(sf.inner, sf.valid)
ShPrefixRest(sf) == Slice(sf.inner, sf.pos, sf.valid)      \* utf8_prefix.as_str()

ShIsEmpty(sf) == ~sf.inv /\ ShPrefixRest(sf) = <<>>
ShIsNegativeNumber(sf) == ~sf.inv /\ IsNumber(ShPrefixRest(sf))

\* results: [k |-> "none"] | [k |-> "ok", v |-> bytes of the char] | [k |-> "err", v |-> suffix]
RNone == [k |-> "none", v |-> <<>>]
ROk(v) == [k |-> "ok", v |-> v]
RErr(v) == [k |-> "err", v |-> v]

ShNextFlag(sf) ==   \* <<state', result>>
  IF sf.pos < sf.valid
  THEN LET k == SeqLenAt(sf.inner, sf.pos + 1)
       IN <<[sf EXCEPT !.pos = sf.pos + k], ROk(Slice(sf.inner, sf.pos, sf.pos + k))>>
  ELSE IF sf.inv THEN <<[sf EXCEPT !.inv = FALSE], RErr(ShSuffix(sf))>>
  ELSE <<sf, RNone>>

ShNextValueOs(sf) ==
  IF sf.pos < sf.valid
  THEN <<[sf EXCEPT !.pos = sf.valid, !.inv = FALSE], ROk(From(sf.inner, sf.pos))>>
  ELSE IF sf.inv THEN <<[sf EXCEPT !.inv = FALSE], ROk(ShSuffix(sf))>>
  ELSE <<sf, RNone>>

\* advance_by(n): for i in 0..n { next().ok_or(i)?.map_err(|_| i)? }
RECURSIVE ShAdvanceLoop(_, _, _)
ShAdvanceLoop(sf, i, n) ==
  IF i >= n THEN <<sf, [k |-> "ok", v |-> <<>>]>>
  ELSE LET r == ShNextFlag(sf) IN
       IF r[2].k = "ok" THEN ShAdvanceLoop(r[1], i + 1, n)
       ELSE <<r[1], [k |-> "err", v |-> <<i>>]>>
ShAdvanceBy(sf, n) == ShAdvanceLoop(sf, 0, n)

ShOps == {"next_flag", "next_value_os", "advance0", "advance1", "advance2", "advance3",
           "is_empty", "is_negative_number"}

Bool(x) == [k |-> IF x THEN "true" ELSE "false", v |-> <<>>]

ShApply(sf, op) ==
  CASE op = "next_flag" -> ShNextFlag(sf)
    [] op = "next_value_os" -> ShNextValueOs(sf)
    [] op = "advance0" -> ShAdvanceBy(sf, 0)
    [] op = "advance1" -> ShAdvanceBy(sf, 1)
    [] op = "advance2" -> ShAdvanceBy(sf, 2)
    [] op = "advance3" -> ShAdvanceBy(sf, 3)
    [] op = "is_empty" -> <<sf, Bool(ShIsEmpty(sf))>>
    [] op = "is_negative_number" -> <<sf, Bool(ShIsNegativeNumber(sf))>>

\* ---- full classification record of one argument (what the harness observes)
Classify(b) ==
  LET lg == PA_ToLong(b)
      sh == PA_ToShort(b)
  IN [empty |-> PA_IsEmpty(b), stdio |-> PA_IsStdio(b), escape |-> PA_IsEscape(b),
      long |-> PA_IsLong(b), short |-> PA_IsShort(b), negnum |-> PA_IsNegativeNumber(b),
      utf8 |-> IsUtf8(b),
      to_long |-> IF IsNone(lg) THEN [some |-> FALSE, flag |-> <<>>, flagOk |-> FALSE, hasValue |-> FALSE, value |-> <<>>]
                  ELSE [some |-> TRUE, flag |-> lg.v.flag, flagOk |-> lg.v.flagOk,
                        hasValue |-> lg.v.hasValue, value |-> lg.v.value],
      to_short |-> IF IsNone(sh) THEN [some |-> FALSE, rem |-> <<>>] ELSE [some |-> TRUE, rem |-> sh.v]]

(***************************************************************************)
(* Declarative side of C13 (no reference to the algorithm above).          *)
(***************************************************************************)
\* the six shapes partition all byte strings
Shape(b) ==
  CASE b = <<>> -> "empty"
    [] b = <<DASH>> -> "stdio"
    [] b = <<DASH, DASH>> -> "escape"
    [] Len(b) > 2 /\ b[1] = DASH /\ b[2] = DASH -> "long"
    [] Len(b) >= 2 /\ b[1] = DASH /\ b[2] # DASH -> "short"
    [] OTHER -> "value"

\* the language of is_number over bytes:  D* ( '.' D* )? ( [eE] D+ ... ) as the doc says:
\* digits, at most one '.', not first, before the exponent; at most one e/E, not first, not last
NumberLang(s) ==
  /\ \A i \in 1..Len(s) : IsDigit(s[i]) \/ s[i] = DOT \/ s[i] = LC_E \/ s[i] = UC_E
  /\ Cardinality({i \in 1..Len(s) : s[i] = DOT}) <= 1
  /\ Cardinality({i \in 1..Len(s) : s[i] = LC_E \/ s[i] = UC_E}) <= 1
  /\ \A i \in 1..Len(s) : s[i] = DOT => i > 1 /\ \A j \in 1..i : ~(s[j] = LC_E \/ s[j] = UC_E)
  /\ \A i \in 1..Len(s) : (s[i] = LC_E \/ s[i] = UC_E) => i > 1 /\ i < Len(s)

\* predicates over an *observed* classification record c of byte string b
ClassConsistentObs(b, c) ==
  LET sh == Shape(b) IN
  /\ c.empty  <=> sh = "empty"
  /\ c.stdio  <=> sh = "stdio"
  /\ c.escape <=> sh = "escape"
  /\ c.long   <=> sh = "long"
  /\ c.short  <=> sh = "short"
  /\ c.to_long.some <=> sh = "long"
  /\ c.to_short.some <=> sh = "short"
  /\ c.utf8 <=> IsUtf8(b)
  /\ c.negnum <=> (IsUtf8(b) /\ Len(b) >= 1 /\ b[1] = DASH /\ NumberLang(Tail(b)))
  \* a negative number with at least one more character is a short cluster
  /\ (c.negnum /\ Len(b) >= 2) => c.short

LongReassemblesObs(b, c) ==
  c.some =>
    /\ <<DASH, DASH>> \o c.flag \o (IF c.hasValue THEN <<EQ>> \o c.value ELSE <<>>) = b
    /\ ~Contains(c.flag, <<EQ>>)
    /\ (c.flagOk <=> IsUtf8(c.flag))
    /\ (~c.hasValue => c.value = <<>>)

ShortRemainderObs(b, c) == c.some => <<DASH>> \o c.rem = b /\ c.rem # <<>> /\ c.rem[1] # DASH

ClassConsistent(b) == ClassConsistentObs(b, Classify(b))
LongReassembles(b) == LongReassemblesObs(b, Classify(b).to_long)
ShortRemainder(b) == ShortRemainderObs(b, Classify(b).to_short)

\* observed walk (ops, results) of a short cluster with remainder `inner`:
\* declaratively, tracking only how many bytes have been handed out so far.
\* off = bytes consumed; tail = the invalid suffix is still to come
RECURSIVE WalkObsOk(_, _, _, _, _, _)
WalkObsOk(inner, ops, rets, i, off, tail) ==
  IF i > Len(ops) THEN TRUE ELSE
  LET v == ValidUpTo(inner)
      op == ops[i] r == rets[i]
      restValid == Slice(inner, off, v)
      nextChar == IF off < v THEN Slice(inner, off, off + SeqLenAt(inner, off + 1)) ELSE <<>>
  IN CASE op = "next_flag" ->
            IF off < v THEN r = ROk(nextChar) /\ WalkObsOk(inner, ops, rets, i + 1, off + Len(nextChar), tail)
            ELSE IF tail THEN r = RErr(From(inner, v)) /\ WalkObsOk(inner, ops, rets, i + 1, off, FALSE)
            ELSE r = RNone /\ WalkObsOk(inner, ops, rets, i + 1, off, tail)
       [] op = "next_value_os" ->
            IF off < v THEN r = ROk(From(inner, off)) /\ WalkObsOk(inner, ops, rets, i + 1, v, FALSE)
            ELSE IF tail THEN r = ROk(From(inner, v)) /\ WalkObsOk(inner, ops, rets, i + 1, off, FALSE)
            ELSE r = RNone /\ WalkObsOk(inner, ops, rets, i + 1, off, tail)
       [] op = "is_empty" -> r = Bool(off >= v /\ ~tail) /\ WalkObsOk(inner, ops, rets, i + 1, off, tail)
       [] op = "is_negative_number" ->
            r = Bool(~tail /\ NumberLang(restValid)) /\ WalkObsOk(inner, ops, rets, i + 1, off, tail)
       [] OTHER ->  \* advanceN: n characters, or as many as there are (the invalid tail is consumed by a failing call)
            LET n == CASE op = "advance0" -> 0 [] op = "advance1" -> 1 [] op = "advance2" -> 2 [] op = "advance3" -> 3
                cs == Chars(restValid)
                avail == Len(cs)
                bytesOf(k) == Len(Concat(SubSeq(cs, 1, k)))
            IN IF n <= avail THEN r = [k |-> "ok", v |-> <<>>] /\ WalkObsOk(inner, ops, rets, i + 1, off + bytesOf(n), tail)
               ELSE r = [k |-> "err", v |-> <<avail>>] /\ WalkObsOk(inner, ops, rets, i + 1, v, FALSE)
=============================================================================
