-------------------------------- MODULE Quote -------------------------------
(***************************************************************************)
(* C17: descriptive text in generated completion scripts.                  *)
(*  - the escaping functions of each generator exactly as written          *)
(*    (fish.rs escape_string / escape_help, zsh.rs escape_help,            *)
(*    powershell.rs / elvish.rs escape_string + escape_help, nushell       *)
(*    single_line_styled_str) and the literal context each slot is put in; *)
(*  - per shell a lexer automaton for that context (stage 1: the shell's   *)
(*    quoting; stage 2 where the literal is interpreted a second time:     *)
(*    fish `complete -a "..."` arguments, zsh _arguments specs).           *)
(* Non-interference: starting inside the slot's literal, the escaped text  *)
(* is consumed without a single byte being read as code, without any       *)
(* expansion, and the automaton is back in the literal at the end.         *)
(* The five non-bash automata are transcribed from the shells' documented  *)
(* quoting rules (trusted base; those shells are not installed).           *)
(***************************************************************************)
EXTENDS Bytes

SQ == 39      \* '
DQ == 34      \* "
BS == 92      \* backslash
DOL == 36     \* $
BT == 96      \* `
LP == 40
RP == 41
LB == 91
RB == 93
COL == 58
COMMA == 44
NL == 10
SP == 32
\* U+2018 .. U+201B are single-quote characters for PowerShell (E2 80 98 .. E2 80 9B)
IsPsQuoteAt(s, i) == s[i] = SQ \/ (i + 2 <= Len(s) /\ s[i] = 226 /\ s[i + 1] = 128 /\ s[i + 2] \in 152..155)
PsQuoteLen(s, i) == IF s[i] = SQ THEN 1 ELSE 3

RECURSIVE Rep(_, _, _)
Rep(s, from, to) == LET i == Find(s, from) IN IF i < 0 THEN s ELSE Slice(s, 0, i) \o to \o Rep(From(s, i + Len(from)), from, to)
Rep1(s, c, to) == Rep(s, <<c>>, to)

\* ---- the generators' escaping functions, as written ---------------------------------
FishEscapeString(s, comma) == LET a == Rep1(Rep1(s, BS, <<BS, BS>>), SQ, <<BS, SQ>>) IN IF comma THEN Rep1(a, COMMA, <<BS, COMMA>>) ELSE a
FishEscapeHelp(s) == FishEscapeString(Rep1(s, NL, <<SP>>), FALSE)
FishEscapeDouble(s) == Rep1(Rep1(s, DQ, <<BS, DQ>>), DOL, <<BS, DOL>>)      \* value_completion: the -a "..." context
ZshEscapeHelp(s) ==
  Rep1(Rep1(Rep1(Rep1(Rep1(Rep1(Rep1(Rep1(s, BS, <<BS, BS>>), SQ, <<SQ, BS, SQ, SQ>>), LB, <<BS, LB>>), RB, <<BS, RB>>),
       COL, <<BS, COL>>), DOL, <<BS, DOL>>), BT, <<BS, BT>>), NL, <<SP>>)
\* zsh.rs write_positionals_of: the help of a positional, `':name -- HELP:action'`, is escaped by its own chain of
\* replacements (no backslash doubling, `$`, backtick or newline handling)
ZshPosEscape(s) == Rep1(Rep1(Rep1(Rep1(s, LB, <<BS, LB>>), RB, <<BS, RB>>), SQ, <<SQ, BS, SQ, SQ>>), COL, <<BS, COL>>)
PsQ(k) == <<226, 128, k>>
PsEscapeString(s) == Rep(Rep(Rep(Rep(Rep1(s, SQ, <<SQ, SQ>>), PsQ(153), <<SQ>> \o PsQ(153)), PsQ(152), <<SQ>> \o PsQ(152)),
                         PsQ(154), <<SQ>> \o PsQ(154)), PsQ(155), <<SQ>> \o PsQ(155))
PsEscapeHelp(s) == PsEscapeString(Rep1(s, NL, <<SP>>))
ElvEscapeHelp(s) == Rep1(Rep1(s, NL, <<SP>>), SQ, <<SQ, SQ>>)
NuSingleLine(s) == Rep1(s, NL, <<SP>>)

\* what a (shell, slot) emits for text s; slots: "about" (subcommand about), "help" (option help), "pvhelp" (possible-value help), "poshelp" (positional help)
Emitted(shell, slot, s) ==
  CASE shell = "fish" -> IF slot = "pvhelp" THEN FishEscapeDouble(FishEscapeHelp(s)) ELSE FishEscapeHelp(s)
    [] shell = "zsh" -> IF slot = "pvhelp" THEN Rep1(ZshEscapeHelp(s), DQ, <<BS, DQ>>)
                        ELSE IF slot = "poshelp" THEN ZshPosEscape(s) ELSE ZshEscapeHelp(s)
    [] shell = "powershell" -> PsEscapeHelp(s)
    [] shell = "elvish" -> ElvEscapeHelp(s)
    [] shell = "nushell" -> NuSingleLine(s)
    [] OTHER -> <<>>                       \* bash: no descriptive text is ever written
HasSlot(shell, slot) ==
  CASE shell = "bash" -> FALSE
    [] slot = "pvhelp" -> shell \in {"fish", "zsh"}
    [] slot = "poshelp" -> shell \in {"zsh", "nushell"}      \* the other generators do not write positionals
    [] OTHER -> TRUE

\* ---- lexer automata: [st, leak] over the emitted bytes ------------------------------------
\* states: "S" single-quoted, "D" double-quoted, "N" unquoted, "C" comment, "B" zsh [..] explanation
R(st, leak) == [st |-> st, leak |-> leak]

\* fish, stage 1 (fish quoting rules: in '..' only \' and \\ are escapes; in ".." only \" \$ \\ \newline;
\* unquoted: \x escapes any character; $ expands variables in "..")
RECURSIVE FishRun(_, _, _, _)
FishRun(s, i, st, leak) ==
  IF i > Len(s) THEN R(st, leak)
  ELSE LET c == s[i] nx == IF i < Len(s) THEN s[i + 1] ELSE 0 IN
  CASE st = "S" -> IF c = BS /\ i = Len(s) THEN R("S", TRUE)                  \* would escape the generator's closing quote
                   ELSE IF c = BS /\ (nx = SQ \/ nx = BS) THEN FishRun(s, i + 2, "S", leak)
                   ELSE IF c = SQ THEN FishRun(s, i + 1, "N", leak) ELSE FishRun(s, i + 1, "S", leak)
    [] st = "D" -> IF c = BS /\ nx \in {DQ, DOL, BS, NL} THEN FishRun(s, i + 2, "D", leak)
                   ELSE IF c = DQ THEN FishRun(s, i + 1, "N", leak)
                   ELSE IF c = DOL THEN FishRun(s, i + 1, "D", TRUE)
                   ELSE FishRun(s, i + 1, "D", leak)
    [] OTHER ->    IF c = BS /\ i < Len(s) THEN FishRun(s, i + 2, "N", leak)
                   ELSE IF c = SQ THEN FishRun(s, i + 1, "S", leak)
                   ELSE IF c = DQ THEN FishRun(s, i + 1, "D", leak)
                   ELSE FishRun(s, i + 1, "N", TRUE)           \* a raw byte outside every literal
\* the value a fish double-quoted string denotes (for the second evaluation of `complete -a "..."`)
RECURSIVE FishUnDouble(_, _)
FishUnDouble(s, i) ==
  IF i > Len(s) THEN <<>>
  ELSE IF s[i] = BS /\ i < Len(s) /\ s[i + 1] \in {DQ, DOL, BS} THEN <<s[i + 1]>> \o FishUnDouble(s, i + 2)
  ELSE IF s[i] = BS /\ i < Len(s) /\ s[i + 1] = NL THEN FishUnDouble(s, i + 2)
  ELSE <<s[i]>> \o FishUnDouble(s, i + 1)

\* POSIX-style single quotes (zsh): no escapes inside; unquoted \x escapes; anything else unquoted is code
RECURSIVE ZshRun(_, _, _, _)
ZshRun(s, i, st, leak) ==
  IF i > Len(s) THEN R(st, leak)
  ELSE LET c == s[i] IN
  IF st = "S" THEN (IF c = SQ THEN ZshRun(s, i + 1, "N", leak) ELSE ZshRun(s, i + 1, "S", leak))
  ELSE IF c = BS /\ i < Len(s) THEN ZshRun(s, i + 2, "N", leak)
  ELSE IF c = SQ THEN ZshRun(s, i + 1, "S", leak)
  ELSE ZshRun(s, i + 1, "N", TRUE)
\* the value of the zsh word (quotes removed) - what _arguments / _describe parse next
RECURSIVE ZshUnquote(_, _, _)
ZshUnquote(s, i, st) ==
  IF i > Len(s) THEN <<>>
  ELSE IF st = "S" THEN (IF s[i] = SQ THEN ZshUnquote(s, i + 1, "N") ELSE <<s[i]>> \o ZshUnquote(s, i + 1, "S"))
  ELSE IF s[i] = BS /\ i < Len(s) THEN <<s[i + 1]>> \o ZshUnquote(s, i + 2, "N")
  ELSE IF s[i] = SQ THEN ZshUnquote(s, i + 1, "S")
  ELSE <<s[i]>> \o ZshUnquote(s, i + 1, "N")
\* stage 2: inside `[explanation]` of an _arguments spec a backslash quotes the next character and `]` ends it;
\* inside the `"description"` of a ((value\:"description")) list `"` ends it
RECURSIVE SpecRun(_, _, _)
SpecRun(v, i, closer) ==      \* TRUE iff the text leaks out of its field
  IF i > Len(v) THEN FALSE
  ELSE IF v[i] = BS /\ i < Len(v) THEN SpecRun(v, i + 2, closer)
  ELSE IF v[i] = closer THEN TRUE
  ELSE SpecRun(v, i + 1, closer)

\* the message field of a positional spec `n:message:action` ends at an unquoted `:`; a backslash left at the very end
\* quotes the generator's own separator
RECURSIVE SpecRunT(_, _, _)
SpecRunT(v, i, closer) ==
  IF i > Len(v) THEN FALSE
  ELSE IF v[i] = BS THEN (IF i = Len(v) THEN TRUE ELSE SpecRunT(v, i + 2, closer))
  ELSE IF v[i] = closer THEN TRUE
  ELSE SpecRunT(v, i + 1, closer)

\* PowerShell single-quoted string: two consecutive quote characters are one literal quote
RECURSIVE PsRun(_, _, _, _)
PsRun(s, i, st, leak) ==
  IF i > Len(s) THEN R(st, leak)
  ELSE IF st = "S"
  THEN IF IsPsQuoteAt(s, i)
       THEN LET j == i + PsQuoteLen(s, i) IN
            IF j <= Len(s) /\ IsPsQuoteAt(s, j) THEN PsRun(s, j + PsQuoteLen(s, j), "S", leak) ELSE PsRun(s, j, "N", leak)
       ELSE PsRun(s, i + 1, "S", leak)
  ELSE IF IsPsQuoteAt(s, i) THEN PsRun(s, i + PsQuoteLen(s, i), "S", TRUE) ELSE PsRun(s, i + 1, "N", TRUE)
\* elvish single-quoted string: '' is a literal quote
RECURSIVE ElvRun(_, _, _, _)
ElvRun(s, i, st, leak) ==
  IF i > Len(s) THEN R(st, leak)
  ELSE IF st = "S"
  THEN IF s[i] = SQ THEN (IF i < Len(s) /\ s[i + 1] = SQ THEN ElvRun(s, i + 2, "S", leak) ELSE ElvRun(s, i + 1, "N", leak))
       ELSE ElvRun(s, i + 1, "S", leak)
  ELSE ElvRun(s, i + 1, "N", TRUE)
\* nushell: the text sits in a `# comment`, which ends at the end of the line
NuLeaks(s) == Contains(s, <<NL>>)

\* ---- non-interference of one emitted literal e in its slot -----------------------------------------------
\* result: "ok" or the reason
Judge(shell, slot, e) ==
  CASE shell = "fish" /\ slot # "pvhelp" ->
         LET r == FishRun(e, 1, "S", FALSE) IN IF r.leak \/ r.st # "S" THEN "stage1" ELSE "ok"
    [] shell = "fish" ->      \* -a "name\t'HELP'": stage 1 inside "..", stage 2 the value inside '..'
         LET r1 == FishRun(e, 1, "D", FALSE) IN
         IF r1.leak \/ r1.st # "D" THEN "stage1"
         ELSE LET r2 == FishRun(FishUnDouble(e, 1), 1, "S", FALSE) IN IF r2.leak \/ r2.st # "S" THEN "stage2" ELSE "ok"
    [] shell = "zsh" ->
         LET r == ZshRun(e, 1, "S", FALSE) IN
         IF r.leak \/ r.st # "S" THEN "stage1"
         ELSE LET v == ZshUnquote(e, 1, "S") IN
              IF slot = "help" /\ SpecRun(v, 1, RB) THEN "stage2"
              ELSE IF slot = "pvhelp" /\ SpecRun(v, 1, DQ) THEN "stage2"
              ELSE IF slot = "poshelp" /\ SpecRunT(v, 1, COL) THEN "stage2"
              ELSE "ok"
    [] shell = "powershell" -> LET r == PsRun(e, 1, "S", FALSE) IN IF r.leak \/ r.st # "S" THEN "stage1" ELSE "ok"
    [] shell = "elvish" -> LET r == ElvRun(e, 1, "S", FALSE) IN IF r.leak \/ r.st # "S" THEN "stage1" ELSE "ok"
    [] shell = "nushell" -> IF NuLeaks(e) THEN "stage1" ELSE "ok"
    [] OTHER -> "ok"
NonInterference(shell, slot, s) == HasSlot(shell, slot) => Judge(shell, slot, Emitted(shell, slot, s)) = "ok"
=============================================================================
