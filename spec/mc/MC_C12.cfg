SPECIFICATION Spec
CONSTANTS
  EmitOn = TRUE
INVARIANTS ArithmeticOk HelpAtLevel Emit
CHECK_DEADLOCK FALSE
