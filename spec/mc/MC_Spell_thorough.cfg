SPECIFICATION Spec
CONSTANTS
  MaxElems = 4
  EmitOn = TRUE
INVARIANTS SpellingsAgree AmbiguousNeverResolved Emit
CHECK_DEADLOCK FALSE
