SPECIFICATION Spec
CONSTANTS
  MaxArgv = 2
  MaxUpdate = 2
  EmitOn = TRUE
INVARIANTS Emit RoundTrip EnumNamesMapBack
CHECK_DEADLOCK FALSE
