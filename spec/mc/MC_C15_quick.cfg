SPECIFICATION Spec
CONSTANTS
  MaxArgv = 2
  MaxUpdate = 1
  EmitOn = TRUE
INVARIANTS Emit RoundTrip EnumNamesMapBack
CHECK_DEADLOCK FALSE
