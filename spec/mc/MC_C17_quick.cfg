SPECIFICATION Spec
CONSTANTS
  MaxLen = 3
  EmitOn = TRUE
INVARIANTS Emit TextIsData
CHECK_DEADLOCK FALSE
