SPECIFICATION Spec
CONSTANTS
  MaxLen = 5
  MaxCalls = 8
  EmitOn = TRUE
VIEW View
INVARIANTS Classification OnBoundary AdvanceEquiv QueriesPure NumberLangAgrees Emit
CHECK_DEADLOCK FALSE
