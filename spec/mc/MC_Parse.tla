----------------------------- MODULE MC_Parse -----------------------------
(* The parser campaign: definitions are chosen in Init from the family file
   (IOEnv.DEFS), the environment feeds one token at a time from the definition's
   alphabet, so the state graph is the prefix tree of all argv up to MaxArgv.
   Every state is a complete parse (Run) and is emitted for replay. *)
EXTENDS Parser, Json, IOUtils

CONSTANTS MaxArgv, EmitOn

Defs == ndJsonDeserialize(IOEnv.DEFS)

VARIABLES d, argv
vars == <<d, argv>>

Init == d \in 1..Len(Defs) /\ argv = <<>>
Feed(tok) == Len(argv) < MaxArgv /\ argv' = Append(argv, tok) /\ UNCHANGED d
Next == \E k \in 1..Len(Defs[d].alphabet) : Feed(Defs[d].alphabet[k])
Spec == Init /\ [][Next]_vars

Obs == Run(Defs[d].cmd, argv)
Emit == EmitOn => PrintT(<<"REPLAY", ToJson([d |-> d, argv |-> argv, obs |-> Obs])>>)
=============================================================================
