----------------------------- MODULE MC_Parse -----------------------------
(* The parser campaign: definitions are chosen in Init from the family file
   (IOEnv.DEFS), the environment feeds one token at a time from the definition's
   alphabet, so the state graph is the prefix tree of all argv up to MaxArgv.
   Every state is a complete parse (Run): the declarative properties are invariants
   on the model's own observation, and every state is emitted for replay. *)
EXTENDS Props, Json, IOUtils

CONSTANTS MaxArgv, EmitOn

Defs == ndJsonDeserialize(IOEnv.DEFS)

VARIABLES d, argv
vars == <<d, argv>>

Init == d \in 1..Len(Defs) /\ argv = <<>>
Feed(tok) == Len(argv) < MaxArgv /\ argv' = Append(argv, tok) /\ UNCHANGED d
Next == \E k \in 1..Len(Defs[d].alphabet) : Feed(Defs[d].alphabet[k])
Spec == Init /\ [][Next]_vars

Def == Defs[d].cmd
Obs == Run(Def, argv)
Top == RunTop(Def, argv)

\* design level: the transcription satisfies the declarative properties
NoPanicSite == Obs.outcome # "Panic"
IgnoreErrorsOk == P01(Def, Obs, TRUE)
RelationsHold == P03(Def, Obs)
SourcesHonest == P06(Def, Obs, Obs) /\ P06Supplied(Def, Obs, Top)
ActionsFold == P07(Def, Obs, Top)
AttributionSound == IndexDistinct(Def, Obs) /\ (Obs.outcome = "Ok" => ValuesFromArgv(Def, EffArgv(Def, argv), Obs))
TailVerbatim == P05(Def, EffArgv(Def, argv), Obs, Top) /\ P05Err(Def, Obs, Top) /\ P05Keep(Def, EffArgv(Def, argv), Obs, Top)
ChainAndGlobals == P09(Def, Obs, Top, Obs)
Rejections == KindContract(Obs) /\ (Obs.outcome = "Err" => Justified(Def, Obs, Top))

Emit == EmitOn => PrintT(<<"REPLAY", ToJson([d |-> d, argv |-> argv, obs |-> Obs,
                                               try |-> IF Obs.outcome = "Err" THEN ExpectedTry(Def, Top, Obs.kind) ELSE <<>>])>>)
=============================================================================
