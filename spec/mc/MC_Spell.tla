----------------------------- MODULE MC_Spell -----------------------------
(* C08: product construction over intended invocations.  An intent is a sequence
   of elements (flag, option+value, short cluster, positional tail, subcommand);
   line A spells every element canonically, line B spells each element in any of
   its documented equivalent ways.  Invariant: both parse to the same observation.
   Compositions of rewrites are covered because every element ranges over all its
   spellings independently. *)
EXTENDS Props, Json, IOUtils

CONSTANTS MaxElems, EmitOn

Defs == ndJsonDeserialize(IOEnv.DEFS)

VARIABLES d, picks      \* picks: sequence of <<element index, spelling index>>
vars == <<d, picks>>

Els == Defs[d].elements
Init == d \in 1..Len(Defs) /\ picks = <<>>
Closed == picks # <<>> /\ Els[picks[Len(picks)][1]].last
Pick(e, s) == /\ Len(picks) < MaxElems /\ ~Closed
              /\ picks' = Append(picks, <<e, s>>) /\ UNCHANGED d
Next == \E e \in 1..Len(Els) : \E s \in 1..Len(Els[e].sp) : Pick(e, s)
Spec == Init /\ [][Next]_vars

ArgvA == Concat([i \in 1..Len(picks) |-> Els[picks[i][1]].sp[1]])
ArgvB == Concat([i \in 1..Len(picks) |-> Els[picks[i][1]].sp[picks[i][2]]])
ObsA == Run(Defs[d].cmd, ArgvA)
ObsB == Run(Defs[d].cmd, ArgvB)

\* the property quantifies over successful lines; a failing line must at least stay failing
\* (a short flag subcommand inside a group of short flags hands its position on to the subcommand's parser, a detached
\* one starts counting afresh: those spellings agree up to argument indices)
NoIdx == \E i \in 1..Len(picks) : Els[picks[i][1]].noidx
A2 == IF NoIdx THEN StripIdx(ObsA) ELSE ObsA
B2 == IF NoIdx THEN StripIdx(ObsB) ELSE ObsB
SpellingsAgree == IF ObsA.outcome = "Ok" THEN ObsEq(A2, B2) /\ ObsEq(B2, A2) ELSE ObsB.outcome = ObsA.outcome
\* an ambiguous prefix is never silently resolved to one of several candidates
HasAmb == \E i \in 1..Len(picks) : Els[picks[i][1]].amb
AmbiguousNeverResolved == HasAmb => ObsB.outcome = "Err"
Emit == EmitOn => PrintT(<<"REPLAY", ToJson([d |-> d, a |-> ArgvA, b |-> ArgvB, obs |-> ObsB, amb |-> HasAmb, noidx |-> NoIdx])>>)
=============================================================================
