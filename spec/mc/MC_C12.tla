------------------------------ MODULE MC_C12 ------------------------------
(* C12: for every definition of the help family and every subcommand path:
   the column arithmetic has no underflowing / unbounded site, the help flag at
   that level yields that level's help, and one replay record lists what the
   rendered help / usage must and must not mention. *)
EXTENDS HelpModel, Parser, Json, IOUtils

CONSTANTS EmitOn
Defs == ndJsonDeserialize(IOEnv.DEFS)
VARIABLES d, path
vars == <<d, path>>

RECURSIVE Level(_, _, _)
Level(c, p, i) == IF i > Len(p) THEN c
                  ELSE LET si == FindSubcommand(c, p[i]) IN Level(Build(c.subs[SubView(c)[si].i], c.childInh), p, i + 1)
Cur == Level(Build(Defs[d].cmd, NoInherit), path, 1)

Init == d \in 1..Len(Defs) /\ path = <<>>
Descend(i) == i \in 1..Len(Cur.subs) /\ path' = Append(path, Cur.subs[i].name) /\ UNCHANGED d
Next == \E i \in 1..3 : Descend(i)
Spec == Init /\ [][Next]_vars

ArithmeticOk == ArithmeticSane(Cur)
HELPFLAG == <<45, 45, 104, 101, 108, 112>>
HelpAtLevel ==
  ~Set(Cur, "disable_help_flag") =>
     /\ Run(Defs[d].cmd, Append(path, HELPFLAG)).kind = "DisplayHelp"
     /\ Run(Defs[d].cmd, Append(path, <<45, 104>>)).kind = "DisplayHelp"
     /\ (Cur.autoHelpSub /\ path = <<>> => \A i \in 1..Len(Cur.subs) : Run(Defs[d].cmd, <<HELP, Cur.subs[i].name>>).kind = "DisplayHelp")

SetToSeq(S) == LET RECURSIVE F(_) F(T) == IF T = {} THEN <<>> ELSE LET x == CHOOSE y \in T : TRUE IN <<x>> \o F(T \ {x}) IN F(S)
Emit == EmitOn => PrintT(<<"REPLAY", ToJson([d |-> d, path |-> path, bound |-> RunBound(Cur),
          must_short |-> SetToSeq(MustAppear(Cur, FALSE)), must_long |-> SetToSeq(MustAppear(Cur, TRUE)),
          not_short |-> SetToSeq(MustNotAppear(Cur, FALSE)), not_long |-> SetToSeq(MustNotAppear(Cur, TRUE)),
          nl_short |-> SetToSeq(NotListed(Cur, FALSE)), nl_long |-> SetToSeq(NotListed(Cur, TRUE)),
          not_usage |-> SetToSeq(UsageMustNot(Cur)),
          \* the mirror of this level under the generated help subcommand (exists when the root has one and this level has children)
          mirror |-> Build(Defs[d].cmd, NoInherit).autoHelpSub /\ Cur.subs # <<>>,
          mirror_must |-> SetToSeq(MirrorMust(Cur)), mirror_not |-> SetToSeq(MirrorNot(Cur))])>>)
=============================================================================
