------------------------------ MODULE MC_C14 ------------------------------
(***************************************************************************)
(* C14: (a) cursor histories: all sequences of <= MaxOps operations on     *)
(* lists of length 0..MaxItems0, all whence x offset classes;              *)
(* (b) helpers: all haystacks <= MaxHay over a 6-byte alphabet x needles.  *)
(* Mode selects which half is explored.                                    *)
(***************************************************************************)
EXTENDS Cursor, TLC, Json

CONSTANTS Mode, MaxItems0, MaxItems, MaxOps, MaxHay, EmitOn

VARIABLES items, cur, path, rets, hay, needle, n0
vars == <<items, cur, path, rets, hay, needle, n0>>
View == <<items, cur, hay, needle>>

StartOffs == {"0", "1", "2", "L-1", "L", "L+1", "MAX"}
Ops ==
  {[op |-> o, whence |-> "", off |-> "", xs |-> <<>>] : o \in {"next", "peek", "remaining", "is_end"}}
  \cup {[op |-> "seek", whence |-> w, off |-> f, xs |-> <<>>] : w \in {"end", "cur"}, f \in OffNames}
  \cup {[op |-> "seek", whence |-> "start", off |-> f, xs |-> <<>>] : f \in StartOffs}
  \cup {[op |-> "insert", whence |-> "", off |-> "", xs |-> x] : x \in {<<>>, <<7>>, <<8, 9>>}}

\* haystack alphabet: 'a' 'b' '=' and the euro sign E2 82 AC, FF
HayAlpha == {97, 98, 61, 226, 130, 255}
\* every needle of length 1..3 over {a, b} (all self-overlap patterns: aa, aab, aba, ...), two of
\* length 4, and the needles clap itself uses ("--", "=") plus multi-byte ones
Needles == UNION {[1..k -> {97, 98}] : k \in 1..3}
           \cup {<<97, 97, 97, 98>>, <<97, 98, 97, 98>>, <<61>>, <<45, 45>>, <<61, 61, 97>>,
                 <<226, 130, 172>>, <<195, 169>>, <<97, 61>>}

Init ==
  IF Mode = "cursor"
  THEN /\ items \in {[i \in 1..n |-> i] : n \in 0..MaxItems0}
       /\ cur = 0 /\ path = <<>> /\ rets = <<>> /\ hay = <<>> /\ needle = <<>> /\ n0 = Len(items)
  ELSE /\ items = <<>> /\ cur = 0 /\ path = <<>> /\ rets = <<>> /\ n0 = 0
       /\ hay \in StringsUpTo(HayAlpha, MaxHay) \cup {<<226, 130, 172>> \o s : s \in StringsUpTo(HayAlpha, MaxHay - 2)}
       /\ needle \in Needles

Do(o) ==
  /\ Mode = "cursor"
  /\ Len(path) < MaxOps
  /\ (o.op = "seek" /\ o.whence = "start" => OffVal(o.off, Len(items)) >= 0)
  /\ LET r == Apply(items, cur, o) IN
       /\ Len(r[1]) <= MaxItems
       /\ items' = r[1] /\ cur' = r[2]
       /\ path' = Append(path, o) /\ rets' = Append(rets, r[3])
  /\ UNCHANGED <<hay, needle, n0>>

Next == \E o \in Ops : Do(o)
Spec == Init /\ [][Next]_vars

\* ---- cursor laws (declarative) ----------------------------------------
ReadPos == Min2(cur, Len(items))
SeekIsClampedSum ==   \* the written arithmetic equals clamp(base + off, 0, len) for every class
  \A w \in {"start", "end", "cur"}, f \in OffNames :
     (w = "start" => OffVal(f, Len(items)) >= 0) =>
        CodeSeek(items, cur, w, OffVal(f, Len(items))) = IdxSeek(items, cur, w, OffVal(f, Len(items)))
PeekNextAgree ==
  Apply(items, cur, [op |-> "peek", whence |-> "", off |-> "", xs |-> <<>>])[3]
    = Apply(items, cur, [op |-> "next", whence |-> "", off |-> "", xs |-> <<>>])[3]
IsEndIffNoPeek ==
  (Apply(items, cur, [op |-> "is_end", whence |-> "", off |-> "", xs |-> <<>>])[3].k = "true")
    <=> (Apply(items, cur, [op |-> "peek", whence |-> "", off |-> "", xs |-> <<>>])[3].k = "none")
RemainingIsSuffix ==
  LET r == Apply(items, cur, [op |-> "remaining", whence |-> "", off |-> "", xs |-> <<>>]) IN
    /\ Slice(items, 0, ReadPos) \o r[3].v = items
    /\ r[2] = Len(items)
InsertKeepsBothSides ==
  \A x \in {<<>>, <<7>>, <<8, 9>>} :
    LET r == Apply(items, cur, [op |-> "insert", whence |-> "", off |-> "", xs |-> x]) IN
      /\ Slice(r[1], 0, ReadPos) = Slice(items, 0, ReadPos)
      /\ Slice(r[1], ReadPos, ReadPos + Len(x)) = x
      /\ From(r[1], ReadPos + Len(x)) = From(items, ReadPos)
      /\ r[2] = cur
NeverOutOfBounds ==   \* every read index used by the model lies inside the list
  /\ ReadPos \in 0..Len(items)
  /\ \A i \in 1..Len(rets) : rets[i].k = "some" => Len(rets[i].v) = 1
CursorLaws == Mode = "cursor" =>
  SeekIsClampedSum /\ PeekNextAgree /\ IsEndIffNoPeek /\ RemainingIsSuffix /\ InsertKeepsBothSides /\ NeverOutOfBounds

\* ---- helper laws (declarative) ----------------------------------------
\* the byte-window search as written in ext.rs find()
RECURSIVE CodeFindFrom(_, _, _)
CodeFindFrom(h, n, x) ==
  IF x > Len(h) - Len(n) THEN -1
  ELSE IF StartsWith(From(h, x), n) THEN x ELSE CodeFindFrom(h, n, x + 1)
CodeFind(h, n) == IF Len(n) > Len(h) THEN -1 ELSE CodeFindFrom(h, n, 0)

HelperLaws == Mode = "helpers" =>
  LET f == Find(hay, needle) so == SplitOnce(hay, needle) sp == Split(hay, needle) IN
  /\ CodeFind(hay, needle) = f
  /\ (f >= 0 => Slice(hay, f, f + Len(needle)) = needle)
  /\ (f >= 0 => ~Contains(Slice(hay, 0, f + Len(needle) - 1), needle))
  /\ (IsSome(so) <=> f >= 0)
  /\ (IsSome(so) => so.v[1] \o needle \o so.v[2] = hay /\ ~Contains(so.v[1], needle))
  /\ Join(sp, needle) = hay
  /\ (\A i \in 1..Len(sp) : ~Contains(sp[i], needle))
  /\ (Len(sp) = 1 <=> f < 0)
  /\ (IsSome(StripPrefix(hay, needle)) <=> StartsWith(hay, needle))
  /\ (IsSome(StripPrefix(hay, needle)) => needle \o StripPrefix(hay, needle).v = hay)
  \* a UTF-8 needle can only match on character boundaries of a UTF-8 haystack
  /\ ((IsUtf8(hay) /\ IsUtf8(needle) /\ f >= 0) => f \in Boundaries(hay) /\ (f + Len(needle)) \in Boundaries(hay))

HelperRec ==
  LET f == Find(hay, needle) so == SplitOnce(hay, needle) st == StripPrefix(hay, needle) IN
  [h |-> hay, n |-> needle, find |-> f, contains |-> f >= 0, starts_with |-> StartsWith(hay, needle),
   strip |-> IF IsSome(st) THEN [some |-> TRUE, v |-> st.v] ELSE [some |-> FALSE, v |-> <<>>],
   split_once |-> IF IsSome(so) THEN [some |-> TRUE, a |-> so.v[1], b |-> so.v[2]] ELSE [some |-> FALSE, a |-> <<>>, b |-> <<>>],
   split |-> Split(hay, needle)]

Fan == {o \in Ops : (o.op = "seek" /\ o.whence = "start") => OffVal(o.off, Len(items)) >= 0}
\* what a caller can see of the state after an operation: everything still unread
Probe(its, c) == IdxRemaining(its, c)

Emit == EmitOn =>
  IF Mode = "cursor"
  THEN PrintT(<<"REPLAY", ToJson([n0 |-> n0, path |-> path, rets |-> rets,
                                   fan |-> {[o |-> o, r |-> Apply(items, cur, o)[3],
                                             probe |-> Probe(Apply(items, cur, o)[1], Apply(items, cur, o)[2])] : o \in Fan}])>>)
  ELSE PrintT(<<"REPLAY", ToJson(HelperRec)>>)
=============================================================================
