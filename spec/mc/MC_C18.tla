------------------------------ MODULE MC_C18 ------------------------------
(* C18: every (definition, words <= MaxWords over the alphabet, cursor index) with the
   parser's reference state; emits what must be represented and the level's ids. *)
EXTENDS Complete, Json, IOUtils
CONSTANTS MaxWords, EmitOn
Defs == ndJsonDeserialize(IOEnv.DEFS)
VARIABLES d, words
vars == <<d, words>>
Init == d \in 1..Len(Defs) /\ words = <<>>
Feed(tok) == Len(words) < MaxWords /\ words' = Append(words, tok) /\ UNCHANGED d
Next == \E k \in 1..Len(Defs[d].alphabet) : Feed(Defs[d].alphabet[k])
Spec == Init /\ [][Next]_vars

C0 == Build(Defs[d].cmd, NoInherit)
Ref(i) == PrefixLevel(C0, SubSeq(words, 1, i - 1), 1, 0, -1, 0)
SetToSeq(S) == LET RECURSIVE F(_) F(T) == IF T = {} THEN <<>> ELSE LET x == CHOOSE y \in T : TRUE IN <<x>> \o F(T \ {x}) IN F(S)

\* design level: whenever a new argument may start the reference level is well defined and every id it
\* must represent is accepted back by the parser as that option / subcommand
MustIdsAreAccepted ==
  \A i \in 1..Len(words) :
    LET p == Ref(i) IN
    NewArgMayStart(p, SubSeq(words, 1, i - 1)) =>
      \A m \in MustIds(p.c, p.st, words[i]) :
         IF m.k = "arg" THEN HasArg(p.c, m.id) ELSE FindSubcommand(p.c, m.id) # 0

\* two records per state: the cursor on the last word, and on a fresh empty word after all of them
\* (the second makes the engine walk every word, which is where its shadow parser can trip)
RecAt(ws, i) == LET p == PrefixLevel(C0, SubSeq(ws, 1, i - 1), 1, 0, -1, 0) IN
                [d |-> d, words |-> ws, i |-> i, newarg |-> NewArgMayStart(p, SubSeq(ws, 1, i - 1)), helpwalk |-> p.help,
                 must |-> IF NewArgMayStart(p, SubSeq(ws, 1, i - 1)) THEN SetToSeq(MustIds(p.c, p.st, ws[i])) ELSE <<>>]
Emit == EmitOn =>
  /\ (words # <<>> => PrintT(<<"REPLAY", ToJson(RecAt(words, Len(words)))>>))
  /\ PrintT(<<"REPLAY", ToJson(RecAt(Append(words, <<>>), Len(words) + 1))>>)
=============================================================================
