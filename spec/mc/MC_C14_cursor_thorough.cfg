SPECIFICATION Spec
CONSTANTS
  Mode = "cursor"
  MaxItems0 = 3
  MaxItems = 7
  MaxOps = 7
  MaxHay = 0
  EmitOn = TRUE
VIEW View
INVARIANTS CursorLaws Emit
CHECK_DEADLOCK FALSE
