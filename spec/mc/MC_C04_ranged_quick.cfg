SPECIFICATION Spec
CONSTANTS
  Mode = "ranged"
  Types = {"u8", "i8", "i64", "u64", "u32"}
  Kinds = {"inc"}
  MaxCalls = 0
  EmitOn = TRUE
INVARIANTS RangedLangOk Emit
CHECK_DEADLOCK FALSE
