SPECIFICATION Spec
CONSTANTS
  MaxElems = 3
  EmitOn = TRUE
INVARIANTS SpellingsAgree AmbiguousNeverResolved Emit
CHECK_DEADLOCK FALSE
