SPECIFICATION Spec
CONSTANTS
  MaxArgv = 3
  EmitOn = TRUE
INVARIANTS Emit
CHECK_DEADLOCK FALSE
