SPECIFICATION Spec
CONSTANTS
  MaxArgv = 2
  EmitOn = TRUE
INVARIANTS Emit
CHECK_DEADLOCK FALSE
