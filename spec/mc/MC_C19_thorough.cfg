SPECIFICATION Spec
CONSTANTS
  MaxLen = 4
  EmitOn = TRUE
INVARIANTS TextNeverControl ControlArgsOneLine Emit
CHECK_DEADLOCK FALSE
