------------------------------ MODULE MC_C19 ------------------------------
(* C19: structures from the man family x one adversarial string placed in one slot.
   Design level: rendered user text never yields a control line; control-line arguments
   stay on one line; emits the expected skeleton for replay. *)
EXTENDS Roff, Json, IOUtils, TLC
CONSTANTS MaxLen, EmitOn
Defs == ndJsonDeserialize(IOEnv.DEFS)
Alphabet == {DOT, APOS, BSL, MINUS_, 34, SPC, NLC, 97}
Strings == StringsUpTo(Alphabet, MaxLen)
VARIABLES d, slot, s
vars == <<d, slot, s>>
SlotNames == {"about", "after_help", "author", "version", "arg_help", "heading", "sub_about", "pv_help",
              "ov_title", "ov_section", "ov_date", "ov_source", "ov_manual"}
HasSlot(md, sl) ==
  CASE sl \in {"arg_help", "heading"} -> md.args # <<>>
    [] sl = "sub_about" -> md.subs # <<>>
    [] sl = "pv_help" -> md.args # <<>> /\ md.args[1].pvs # <<>>
    [] OTHER -> TRUE
Subst(md, sl, t) ==
  CASE sl = "about" -> [md EXCEPT !.about = t]
    [] sl = "after_help" -> [md EXCEPT !.after_help = t]
    [] sl = "author" -> [md EXCEPT !.author = t]
    [] sl = "version" -> [md EXCEPT !.version = t]
    [] sl = "arg_help" -> [md EXCEPT !.args[1].help = t]
    [] sl = "heading" -> [md EXCEPT !.args[1].heading = t]
    [] sl = "sub_about" -> [md EXCEPT !.subs[1].about = t]
    [] sl = "pv_help" -> [md EXCEPT !.args[1].pvs[1].help = t]
    [] sl = "ov_title" -> [md EXCEPT !.ov_title = t]
    [] sl = "ov_section" -> [md EXCEPT !.ov_section = t]
    [] sl = "ov_date" -> [md EXCEPT !.ov_date = t]
    [] sl = "ov_source" -> [md EXCEPT !.ov_source = t]
    [] sl = "ov_manual" -> [md EXCEPT !.ov_manual = t]
Init == d \in 1..Len(Defs) /\ slot \in SlotNames /\ HasSlot(Defs[d].md, slot) /\ s \in Strings
Next == UNCHANGED vars
Spec == Init /\ [][Next]_vars
MD == Subst(Defs[d].md, slot, s)

TextNeverControl == \A i \in 1..Len(TextSlots(MD)) : \A k \in 1..Len(RustLines(TextSlots(MD)[i] \o <<>>)) \cup {} :
                       TextSlots(MD)[i] = <<>> \/ TextStaysText(RustLines(TextSlots(MD)[i])[k])
ControlArgsOneLine == \A i \in 1..Len(ControlArgSlots(MD)) : ControlArgStaysOneLine(<<83, 72>>, ControlArgSlots(MD)[i])
SetToSeq(S) == LET RECURSIVE F(_) F(T) == IF T = {} THEN <<>> ELSE LET x == CHOOSE y \in T : TRUE IN <<x>> \o F(T \ {x}) IN F(S)
Emit == EmitOn => PrintT(<<"REPLAY", ToJson([d |-> d, slot |-> slot, s |-> s, md |-> MD, skeleton |-> Skeleton(MD),
                                              must |-> SetToSeq(MustName(MD)), mustnot |-> SetToSeq(MustNotName(MD))])>>)
=============================================================================
