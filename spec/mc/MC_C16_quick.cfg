SPECIFICATION Spec
CONSTANTS
  MaxBefore = 2
  EmitOn = TRUE
INVARIANTS Emit EmitMentions BashOffers NamesAreMangleSafe
CHECK_DEADLOCK FALSE
