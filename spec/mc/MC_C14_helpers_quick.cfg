SPECIFICATION Spec
CONSTANTS
  Mode = "helpers"
  MaxItems0 = 0
  MaxItems = 0
  MaxOps = 0
  MaxHay = 4
  EmitOn = TRUE
INVARIANTS HelperLaws Emit
CHECK_DEADLOCK FALSE
