------------------------------ MODULE MC_C20 ------------------------------
(* C20: all texts over 8 symbols up to MaxLen x widths: the transcription of
   textwrap satisfies the declarative property; one replay record per text. *)
EXTENDS Wrap, TLC, Json

CONSTANTS MaxLen, Widths, EmitOn, Alphabet

VARIABLES text
vars == <<text>>

\* the environment appends one symbol at a time: the state graph is the prefix tree of all texts up to MaxLen
Init == text = <<>>
Next == Len(text) < MaxLen /\ \E a \in Alphabet : text' = Append(text, a)
Spec == Init /\ [][Next]_vars

PlainOk == \A w \in Widths : P20Plain(text, w, PlainWrap(text, w))
StyledOk == \A w \in Widths : P20Styled(text, w, StyledWrap(text, w))

Ws == CHOOSE s \in Seq(Widths) : Len(s) = Cardinality(Widths) /\ \A i, j \in 1..Len(s) : i < j => s[i] < s[j]
Emit == EmitOn => PrintT(<<"REPLAY", ToJson([text |-> text,
            plain |-> [w \in Widths |-> PlainWrap(text, w)],
            styled |-> [w \in Widths |-> StyledWrap(text, w)]])>>)
=============================================================================
