------------------------------ MODULE MC_C16 ------------------------------
(* C16: every tree of the generator family x every sequence of words before the cursor
   (<= MaxBefore, over the tree's subcommand words and one junk word) x every partial
   word of the addressed level.  Design level: the bash automaton offers what the
   addressed level offers (fails exactly on the recorded witness classes). *)
EXTENDS GenTree, Json, IOUtils, TLC
CONSTANTS MaxBefore, EmitOn
Defs == ndJsonDeserialize(IOEnv.DEFS)
VARIABLES d, before, cur, done
vars == <<d, before, cur, done>>
T == Built(Defs[d].tree, FALSE)
Root == Defs[d].tree.name
RECURSIVE AllSubWords(_)
AllSubWords(t) == {SubWords(t)[i] : i \in 1..Len(SubWords(t))} \cup UNION {AllSubWords(t.subs[i]) : i \in 1..Len(t.subs)}
Vocabulary == AllSubWords(T) \cup {<<122, 122>>}
Prefixes(w) == {SubSeq(w, 1, k) : k \in 0..Len(w)}
Partials(t) == {<<>>, <<45>>, <<45, 45>>} \cup UNION {Prefixes(LevelWords(t)[i]) : i \in 1..Len(LevelWords(t))}
Init == d \in 1..Len(Defs) /\ before = <<>> /\ cur = <<>> /\ done = FALSE
Feed(w) == ~done /\ Len(before) < MaxBefore /\ before' = Append(before, w) /\ UNCHANGED <<d, cur, done>>
Choose(c) == ~done /\ cur' = c /\ done' = TRUE /\ UNCHANGED <<d, before>>
Next == (\E w \in Vocabulary : Feed(w)) \/ (\E c \in Partials(IntendedLevel(T, before, 1)) : Choose(c))
Spec == Init /\ [][Next]_vars

Words == <<Root>> \o before \o <<cur>>
Script == ScriptReply(T, Root, Words, cur)
Intended == IntendedReply(T, before, cur)
BashOffers == done => Relevant(T, before, Script) = Relevant(T, before, Intended)
NamesAreMangleSafe == ~HasDoubleUnderscoreName(T) /\ MangleInjective(T, Root)

SetToSeq(S) == LET RECURSIVE F(_) F(X) == IF X = {} THEN <<>> ELSE LET x == CHOOSE y \in X : TRUE IN <<x>> \o F(X \ {x}) IN F(S)
Emit == (EmitOn /\ done) => PrintT(<<"REPLAY", ToJson([d |-> d, before |-> before, cur |-> cur, script |-> Script,
                                                         intended |-> SetToSeq(Relevant(T, before, Intended)), subwords |-> SubWords(IntendedLevel(T, before, 1))])>>)
EmitMentions == (EmitOn /\ ~done /\ before = <<>>) =>
                   PrintT(<<"REPLAY", ToJson([d |-> d, mentions |-> SetToSeq(AllMentions(T, 1, 9)), mentions2 |-> SetToSeq(AllMentions(T, 1, 2))])>>)
=============================================================================
