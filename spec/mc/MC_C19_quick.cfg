SPECIFICATION Spec
CONSTANTS
  MaxLen = 3
  EmitOn = TRUE
INVARIANTS TextNeverControl ControlArgsOneLine Emit
CHECK_DEADLOCK FALSE
