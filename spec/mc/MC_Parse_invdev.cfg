SPECIFICATION Spec
CONSTANTS
  MaxArgv = 2
  EmitOn = FALSE
INVARIANTS IgnoreErrorsOk RelationsHold SourcesHonest ActionsFold AttributionSound TailVerbatim ChainAndGlobals Rejections
CHECK_DEADLOCK FALSE
