SPECIFICATION Spec
CONSTANTS
  MaxArgv = 3
  EmitOn = FALSE
INVARIANTS IgnoreErrorsOk RelationsHold SourcesHonest ActionsFold AttributionSound TailVerbatim ChainAndGlobals Rejections
CHECK_DEADLOCK FALSE
