------------------------------ MODULE MC_C13 ------------------------------
(***************************************************************************)
(* C13: for all byte strings b over a boundary alphabet (|b| <= MaxLen),   *)
(* the classification is consistent and lossless; for all interleavings of *)
(* ShortFlags calls (|path| <= MaxCalls) the walk is a lossless            *)
(* decomposition on character boundaries.  Emits one replay record per     *)
(* distinct (b, ShortFlags state) when EmitOn.                             *)
(***************************************************************************)
EXTENDS Lex, TLC, Json

CONSTANTS MaxLen, MaxCalls, EmitOn

\* '-', '=', 'a', '1', '.', 'e', C3 A9 (e-acute), E2 82 AC (euro), FF
Alphabet == {45, 61, 97, 49, 46, 101, 195, 169, 226, 130, 172, 255}

VARIABLES b, sf, path, rets
vars == <<b, sf, path, rets>>
View == <<b, sf>>

NoSF == [inner |-> <<>>, valid |-> 0, pos |-> 0, inv |-> FALSE]
HasSF == IsSome(PA_ToShort(b))

Init ==
  /\ b \in StringsUpTo(Alphabet, MaxLen) \cup {<<DASH>> \o s : s \in StringsUpTo(Alphabet, MaxLen)}
  /\ sf = IF IsSome(PA_ToShort(b)) THEN ShNew(PA_ToShort(b).v) ELSE NoSF
  /\ path = <<>>
  /\ rets = <<>>

Call(op) ==
  /\ HasSF
  /\ Len(path) < MaxCalls
  /\ LET r == ShApply(sf, op) IN
       /\ sf' = r[1]
       /\ path' = Append(path, op)
       /\ rets' = Append(rets, r[2])
  /\ UNCHANGED b

Next == \E op \in ShOps : Call(op)
Spec == Init /\ [][Next]_vars

\* ---- invariants (declarative) -----------------------------------------
Classification == ClassConsistent(b) /\ LongReassembles(b) /\ ShortRemainder(b)

Unread(s) == ShPrefixRest(s) \o (IF s.inv THEN ShSuffix(s) ELSE <<>>)

OnBoundary == HasSF => sf.pos \in Boundaries(sf.inner) /\ sf.pos <= sf.valid

DataOps == {"next_flag", "next_value_os"}
QueryOps == {"is_empty", "is_negative_number", "advance0"}

Pieces == [i \in 1..Len(rets) |-> IF path[i] \in DataOps THEN rets[i].v ELSE <<>>]

\* lossless: on paths made of data ops and queries, what was returned plus
\* what is unread is the input, nothing invented / dropped / duplicated
Lossless ==
  (HasSF /\ \A i \in 1..Len(path) : path[i] \in DataOps \cup QueryOps)
     => Concat(Pieces) \o Unread(sf) = sf.inner

\* walking with next_flag only: the characters of the valid prefix, then the
\* invalid tail once, then None for ever
ExpectedWalk(inner) ==
  LET v == ValidUpTo(inner)
      cs == Chars(Slice(inner, 0, v))
  IN [i \in 1..Len(cs) |-> ROk(cs[i])] \o (IF v < Len(inner) THEN <<RErr(From(inner, v))>> ELSE <<>>)
WalkInOrder ==
  (HasSF /\ \A i \in 1..Len(path) : path[i] = "next_flag")
     => LET w == ExpectedWalk(sf.inner) IN
        \A i \in 1..Len(path) : rets[i] = IF i <= Len(w) THEN w[i] ELSE RNone

\* every Ok(char) is one well-formed UTF-8 character
CharsWellFormed ==
  \A i \in 1..Len(path) : (path[i] = "next_flag" /\ rets[i].k = "ok")
      => (IsUtf8(rets[i].v) /\ Len(Chars(rets[i].v)) = 1)

\* advance_by(n) = n x next_flag when it succeeds; on failure reports how many succeeded
RECURSIVE NFold(_, _)
NFold(s, n) == IF n = 0 THEN s ELSE NFold(ShNextFlag(s)[1], n - 1)
RECURSIVE OkCount(_, _)
OkCount(s, n) == IF n = 0 THEN 0
                 ELSE IF ShNextFlag(s)[2].k = "ok" THEN 1 + OkCount(ShNextFlag(s)[1], n - 1) ELSE 0
AdvanceEquiv ==
  HasSF => \A n \in 0..3 :
     LET r == ShAdvanceBy(sf, n) k == OkCount(sf, n) IN
       IF k = n THEN r[2].k = "ok" /\ r[1] = NFold(sf, n)
       ELSE r[2] = [k |-> "err", v |-> <<k>>]

\* queries are pure and mean what they say
QueriesPure ==
  HasSF => /\ ShIsEmpty(sf) <=> Unread(sf) = <<>>
           /\ ShIsNegativeNumber(sf) <=> (~sf.inv /\ NumberLang(ShPrefixRest(sf)))

NumberLangAgrees == \A s \in {b} : IsUtf8(s) => (IsNumber(s) <=> NumberLang(s))

\* ---- emission ----------------------------------------------------------
Rec == [b |-> b, cls |-> Classify(b), hasSF |-> HasSF, path |-> path, rets |-> rets,
        next |-> [op \in ShOps |-> IF HasSF THEN ShApply(sf, op)[2] ELSE RNone]]
Emit == EmitOn => PrintT(<<"REPLAY", ToJson(Rec)>>)
=============================================================================
