SPECIFICATION Spec
CONSTANTS
  Mode = "access"
  Types = {"u8"}
  Kinds = {"inc"}
  MaxCalls = 4
  EmitOn = TRUE
VIEW View
INVARIANTS Emit
PROPERTIES FailedAccessLeavesStoreUnchanged AccessFrame
CHECK_DEADLOCK FALSE
