SPECIFICATION Spec
CONSTANTS
  MaxOps = 4
  EmitOn = TRUE
INVARIANTS BuildIdempotent NamedWhenDispatched RendersLeaveNoTrace Emit
PROPERTIES Monotone
CHECK_DEADLOCK FALSE
