SPECIFICATION Spec
CONSTANTS
  Mode = "other"
  Types = {"u8"}
  Kinds = {"inc"}
  MaxCalls = 0
  EmitOn = TRUE
INVARIANTS OtherLangOk Emit
CHECK_DEADLOCK FALSE
