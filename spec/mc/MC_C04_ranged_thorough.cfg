SPECIFICATION Spec
CONSTANTS
  Mode = "ranged"
  Types = {"u8", "i8", "u16", "i16", "u32", "i32", "i64", "u64"}
  Kinds = {"inc", "exc"}
  MaxCalls = 0
  EmitOn = TRUE
INVARIANTS RangedLangOk Emit
CHECK_DEADLOCK FALSE
