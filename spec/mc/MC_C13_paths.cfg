SPECIFICATION Spec
CONSTANTS
  MaxLen = 2
  MaxCalls = 3
  EmitOn = FALSE
INVARIANTS Classification OnBoundary Lossless WalkInOrder CharsWellFormed AdvanceEquiv QueriesPure NumberLangAgrees
CHECK_DEADLOCK FALSE
