SPECIFICATION Spec
CONSTANTS
  MaxLen = 6
  Widths = {1, 2, 3, 4, 6, 1000000}
  Alphabet = {1, 2, 3, 4, 5, 6, 7, 8}
  EmitOn = TRUE
INVARIANTS PlainOk StyledOk Emit
CHECK_DEADLOCK FALSE
