SPECIFICATION Spec
CONSTANTS
  MaxLen = 4
  EmitOn = TRUE
INVARIANTS Emit TextIsData
CHECK_DEADLOCK FALSE
