SPECIFICATION Spec
CONSTANTS
  Mode = "cursor"
  MaxItems0 = 3
  MaxItems = 6
  MaxOps = 5
  MaxHay = 0
  EmitOn = TRUE
VIEW View
INVARIANTS CursorLaws Emit
CHECK_DEADLOCK FALSE
