------------------------------ MODULE MC_C15 ------------------------------
(* C15: for every corpus type, (parse mode) every argv over the type's alphabet up to
   MaxArgv: the derived parser = its command + field extraction, and a parsed value
   printed back parses to itself; (update mode) an initial line then one update line:
   only the fields named on the update's command line change. *)
EXTENDS Derive, Json, IOUtils
CONSTANTS MaxArgv, MaxUpdate, EmitOn
Descs == ndJsonDeserialize(IOEnv.DEFS)
VARIABLES d, argv, upd, phase
vars == <<d, argv, upd, phase>>
Desc == Descs[d]
Init == d \in 1..Len(Descs) /\ argv = <<>> /\ upd = <<>> /\ phase = "parse"
ObsP == Run(DeriveCmd(Desc, FALSE), argv)
Feed(tok) == phase = "parse" /\ Len(argv) < MaxArgv /\ argv' = Append(argv, tok) /\ UNCHANGED <<d, upd, phase>>
\* start updating from any successfully parsed value
StartUpdate == phase = "parse" /\ MaxUpdate > 0 /\ ObsP.outcome = "Ok" /\ phase' = "update" /\ UNCHANGED <<d, argv, upd>>
FeedU(tok) == phase = "update" /\ Len(upd) < MaxUpdate /\ upd' = Append(upd, tok) /\ UNCHANGED <<d, argv, phase>>
Next == (\E k \in 1..Len(Desc.alphabet) : Feed(Desc.alphabet[k]) \/ FeedU(Desc.alphabet[k])) \/ StartUpdate
Spec == Init /\ [][Next]_vars

Value == Extract(Desc, ObsP)
ObsU == Run(DeriveCmd(Desc, TRUE), upd)
Upd == UpdateValue(Desc, Value, ObsU)

\* design level: printing a parsed value and parsing it again gives the same value
RoundTrip ==
  (phase = "parse" /\ ObsP.outcome = "Ok" /\ Printable(Desc, Value)) =>
     LET o2 == Run(DeriveCmd(Desc, FALSE), PrintValue(Desc, Value)) IN o2.outcome = "Ok" /\ Extract(Desc, o2) = Value
\* every name and alias of the value enum maps back to its variant
EnumNamesMapBack ==
  \A i \in 1..Len(Desc.enum.variants) :
     /\ VariantOf(Desc, Desc.enum.variants[i].name) = Desc.enum.variants[i].name
     /\ \A k \in 1..Len(Desc.enum.variants[i].aliases) : VariantOf(Desc, Desc.enum.variants[i].aliases[k]) = Desc.enum.variants[i].name

Emit == EmitOn =>
  IF phase = "parse"
  THEN PrintT(<<"REPLAY", ToJson([d |-> d, mode |-> "parse", argv |-> argv, upd |-> <<>>, obs |-> ObsP,
                                   value |-> IF ObsP.outcome = "Ok" THEN Value ELSE [top |-> <<>>, cmd |-> <<>>, sub |-> <<>>, cmd2 |-> <<>>, sub2 |-> <<>>],
                                   printed |-> IF ObsP.outcome = "Ok" /\ Printable(Desc, Value) THEN PrintValue(Desc, Value) ELSE <<>>,
                                   printable |-> ObsP.outcome = "Ok" /\ Printable(Desc, Value)])>>)
  ELSE PrintT(<<"REPLAY", ToJson([d |-> d, mode |-> "update", argv |-> argv, upd |-> upd, obs |-> ObsU,
                                   upd_ok |-> ObsU.outcome = "Ok" /\ Upd.ok,
                                   value |-> IF ObsU.outcome = "Ok" /\ Upd.ok THEN Upd.v ELSE Value, printed |-> <<>>, printable |-> FALSE])>>)
=============================================================================
