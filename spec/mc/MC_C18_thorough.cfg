SPECIFICATION Spec
CONSTANTS
  MaxWords = 3
  EmitOn = TRUE
INVARIANTS MustIdsAreAccepted Emit
CHECK_DEADLOCK FALSE
