------------------------------ MODULE MC_C17 ------------------------------
(* C17: every string up to MaxLen over the adversarial alphabet x shell x slot. *)
EXTENDS Quote, Json, TLC
CONSTANTS MaxLen, EmitOn
\* ' " \ $ ` ( ) [ ] : , newline tab  a  e-acute (C3 A9)  and the PowerShell quote characters E2 80 98/99
Units == {<<SQ>>, <<DQ>>, <<BS>>, <<DOL>>, <<BT>>, <<LP>>, <<RP>>, <<LB>>, <<RB>>, <<COL>>, <<COMMA>>, <<NL>>, <<9>>, <<97>>, <<195, 169>>,
          <<226, 128, 152>>, <<226, 128, 153>>}
Shells == {"bash", "fish", "zsh", "powershell", "elvish", "nushell"}
Slots == {"about", "help", "pvhelp", "poshelp"}
VARIABLES units
vars == <<units>>
Init == units = <<>>
Next == \E u \in Units : Len(units) < MaxLen /\ units' = Append(units, u)
Spec == Init /\ [][Next]_vars
S == Concat(units)
TextIsData == \A sh \in Shells, sl \in Slots : NonInterference(sh, sl, S)
Pairs == {q \in (Shells \ {"bash"}) \X Slots : HasSlot(q[1], q[2])}
Emit == EmitOn => PrintT(<<"REPLAY", ToJson([s |-> S,
          want |-> {[shell |-> q[1], slot |-> q[2], e |-> Emitted(q[1], q[2], S), verdict |-> Judge(q[1], q[2], Emitted(q[1], q[2], S))] : q \in Pairs}])>>)
=============================================================================
