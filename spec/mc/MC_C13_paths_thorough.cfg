SPECIFICATION Spec
CONSTANTS
  MaxLen = 3
  MaxCalls = 4
  EmitOn = FALSE
INVARIANTS Classification OnBoundary Lossless WalkInOrder CharsWellFormed AdvanceEquiv QueriesPure NumberLangAgrees
CHECK_DEADLOCK FALSE
