SPECIFICATION Spec
CONSTANTS
  MaxBefore = 3
  EmitOn = TRUE
INVARIANTS Emit EmitMentions BashOffers NamesAreMangleSafe
CHECK_DEADLOCK FALSE
