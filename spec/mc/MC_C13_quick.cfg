SPECIFICATION Spec
CONSTANTS
  MaxLen = 3
  MaxCalls = 5
  EmitOn = TRUE
VIEW View
INVARIANTS Classification OnBoundary AdvanceEquiv QueriesPure NumberLangAgrees Emit
CHECK_DEADLOCK FALSE
