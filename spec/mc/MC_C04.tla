------------------------------ MODULE MC_C04 ------------------------------
(* C04: value-parser languages (ranged integers over 8 target widths x ranges x
   candidate strings; bool-like, possible-value, string parsers) and typed access
   histories.  Mode selects the half explored. *)
EXTENDS Values, TLC, Json

CONSTANTS Mode, Types, Kinds, MaxCalls, EmitOn

VARIABLES t, ctor, r, pk, ic, store, path, rets
vars == <<t, ctor, r, pk, ic, store, path, rets>>
View == <<t, ctor, r, pk, ic, store>>

\* ---------------------------------------------------------------- ranged
NoNum == [neg |-> FALSE, mag |-> <<>>]
Ranges(ty) ==
  LET B == BoundsOfInterest[ty]
      Lo == {[k |-> "unb", n |-> NoNum]} \cup {[k |-> k, n |-> n] : k \in Kinds, n \in B}
  IN {[lk |-> a.k, lo |-> a.n, hk |-> b.k, hi |-> b.n] : a \in Lo, b \in Lo}

\* what `range()`'s debug assertions admit for value_parser!(T).range(..): bounds inside the type
FactoryOk(ty, rg) ==
  /\ rg.lk \in {"unb", "inc"} /\ rg.hk \in {"unb", "inc"}
  /\ (rg.lk = "inc" => InType(ty, rg.lo))
  /\ (rg.hk = "inc" => InType(ty, rg.hi))
ShortOk(ty, rg) == ty = "i64" /\ rg.lk \in {"unb", "inc"}    \* Arg::value_parser(a..b) etc. exist for i64 only

ShortDigits == UNION {[1..k -> {0, 1, 9}] : k \in 1..3}
ValueUniverse(ty) == NumbersOfInterest[ty] \cup {Norm(n, d) : n \in BOOLEAN, d \in ShortDigits}
ShortStrings == StringsUpTo({PLUS, MINUS, 48, 49, 57, 32, 97, 255}, 3)
Spellings(n) ==
  LET c == NumStr(n)
      digits == IF n.neg THEN Tail(c) ELSE c
      sign == IF n.neg THEN <<MINUS>> ELSE <<>>
  IN {c, sign \o <<48>> \o digits, sign \o <<48, 48>> \o digits, <<PLUS>> \o c, <<PLUS>> \o digits,
      <<MINUS>> \o digits, c \o <<32>>, <<32>> \o c, digits \o <<46, 48>>}
Cands(ty) == ShortStrings \cup UNION {Spellings(n) : n \in NumbersOfInterest[ty]}
                          \cup {<<MINUS, 48>>, <<PLUS, 48>>, <<MINUS, MINUS, 49>>, <<PLUS, MINUS, 49>>, <<49, 95, 48>>, <<48, 120, 49>>}

RangedLangOk ==
  Mode = "ranged" =>
    \A s \in Cands(t) :
      LET m == RangedParse(t, r, s)
          vs == RangedLang(t, r, s)
      IN /\ (m.k = "Ok") <=> (vs # {})
         /\ (m.k = "Ok" => \A v \in vs : m.v = NumStr(v))
         /\ (m.k # "Ok" => m.k = IF IsUtf8(s) THEN "ValueValidation" ELSE "InvalidUtf8")

\* ----------------------------------------------------------------- other
RECURSIVE CaseVariants(_)
CaseVariants(w) ==
  IF w = <<>> THEN {<<>>}
  ELSE LET c == Head(w) up == IF c >= 97 /\ c <= 122 THEN c - 32 ELSE c
       IN {<<x>> \o rest : x \in {c, up}, rest \in CaseVariants(Tail(w))}
NearMisses(w) == {w \o <<32>>, <<32>> \o w, w \o <<120>>, SubSeq(w, 1, Len(w) - 1), w \o <<255>>, <<255>>, w \o w}
FAST == <<102, 97, 115, 116>>
QUICK == <<113, 117, 105, 99, 107>>
SLOW == <<83, 108, 111, 119>>
PVs == <<[name |-> FAST, aliases |-> {QUICK}, hide |-> FALSE], [name |-> SLOW, aliases |-> {}, hide |-> TRUE]>>
Words == TRUE_LITERALS \cup FALSE_LITERALS \cup {FAST, QUICK, SLOW, LowerAscii(SLOW)}
OtherCands == {<<>>, <<32>>, <<50>>, <<195, 169>>} \cup UNION {CaseVariants(w) \cup NearMisses(w) : w \in Words}
ParserKinds == {"bool", "boolish", "falsey", "possible", "nonempty", "string", "os", "enum", "pathbuf"}
OtherParse(k, icase, s) ==
  CASE k = "bool" -> BoolParse(s) [] k = "boolish" -> BoolishParse(s) [] k = "falsey" -> FalseyParse(s)
    [] k = "possible" -> PossibleParse(PVs, icase, s) [] k = "nonempty" -> NonEmptyParse(s)
    [] k = "string" -> StringParse(s) [] k = "os" -> OsParse(s)
    [] k = "enum" -> EnumParse(PVs, icase, s) [] k = "pathbuf" -> PathBufParse(s)

\* declarative languages
OtherLangOk ==
  Mode = "other" =>
    \A s \in OtherCands :
      LET m == OtherParse(pk, ic, s) IN
      CASE pk = "bool" -> (m.k = "Ok") <=> (s \in {BoolStr(TRUE), BoolStr(FALSE)})
        [] pk = "boolish" -> /\ (m.k = "Ok") <=> (IsUtf8(s) /\ \E w \in TRUE_LITERALS \cup FALSE_LITERALS : s \in CaseVariants(w))
                             /\ (m.k = "Ok" => (m.v = BoolStr(TRUE)) <=> (\E w \in TRUE_LITERALS : s \in CaseVariants(w)))
        [] pk = "falsey" -> /\ (m.k = "Ok") <=> IsUtf8(s)
                            /\ (m.k = "Ok" => (m.v = BoolStr(FALSE)) <=> (s = <<>> \/ \E w \in FALSE_LITERALS : s \in CaseVariants(w)))
        [] pk = "possible" -> /\ (m.k = "Ok") <=> (IsUtf8(s) /\ \E w \in {FAST, QUICK, SLOW} :
                                                      IF ic THEN LowerAscii(s) = LowerAscii(w) ELSE s = w)
                              /\ (m.k = "Ok" => m.v = s)
        [] pk = "nonempty" -> (m.k = "Ok") <=> (s # <<>> /\ IsUtf8(s))
        [] pk = "string" -> (m.k = "Ok") <=> IsUtf8(s)
        [] pk = "os" -> m = VOk(s)
        \* the variant is the one that declares the name or alias; spelled here by its canonical name
        [] pk = "enum" -> /\ (m.k = "Ok") <=> (IsUtf8(s) /\ \E w \in {FAST, QUICK, SLOW} :
                                                  IF ic THEN LowerAscii(s) = LowerAscii(w) ELSE s = w)
                          /\ (m.k = "Ok" => m.v = IF LowerAscii(s) = LowerAscii(SLOW) THEN SLOW ELSE FAST)
                          /\ (m.k # "Ok" => m.k = "InvalidValue")
        [] pk = "pathbuf" -> m = IF s = <<>> THEN VErr("InvalidValue") ELSE VOk(s)

\* ---------------------------------------------------------------- access
\* ids: "a" typed u8 present with two values, "b" typed str present, "c" defined absent, "zz" undefined
Valid == {"a", "b", "c"}
Store0 == ("a" :> [ty |-> "u8", vals |-> <<<<49>>, <<50>>>>]) @@ ("b" :> [ty |-> "str", vals |-> <<<<120>>>>])
Calls == {[op |-> o, id |-> i, ty |-> ty] : o \in AccessKinds \ {"contains_id", "get_raw", "clear_id"}, i \in {"a", "b", "c", "zz"}, ty \in {"u8", "str"}}
         \cup {[op |-> o, id |-> i, ty |-> ""] : o \in {"contains_id", "get_raw", "clear_id"}, i \in {"a", "b", "c", "zz"}}

Init ==
  /\ path = <<>> /\ rets = <<>>
  /\ IF Mode = "ranged"
     THEN /\ t \in Types /\ ctor \in {"new", "factory", "short"} /\ r \in Ranges(t)
          /\ (ctor = "factory" => FactoryOk(t, r)) /\ (ctor = "short" => ShortOk(t, r))
          /\ pk = "" /\ ic = FALSE /\ store = Store0
     ELSE IF Mode = "other"
     THEN /\ pk \in ParserKinds /\ ic \in BOOLEAN /\ (ic => pk \in {"possible", "enum"})
          /\ t = "u8" /\ ctor = "" /\ r = [lk |-> "unb", lo |-> NoNum, hk |-> "unb", hi |-> NoNum] /\ store = Store0
     ELSE /\ t = "u8" /\ ctor = "" /\ r = [lk |-> "unb", lo |-> NoNum, hk |-> "unb", hi |-> NoNum]
          /\ pk = "" /\ ic = FALSE /\ store = Store0

Do(c) ==
  /\ Mode = "access" /\ Len(path) < MaxCalls
  /\ LET a == Access(Valid, store, c) IN
       store' = a[1] /\ path' = Append(path, c) /\ rets' = Append(rets, a[2])
  /\ UNCHANGED <<t, ctor, r, pk, ic>>
Next == \E c \in Calls : Do(c)
Spec == Init /\ [][Next]_vars

\* a failed typed access (wrong type, unknown or absent id) leaves the store as it was
FailedAccessLeavesStoreUnchanged ==
  [][\A c \in Calls :
       (Mode = "access" /\ path' = Append(path, c) /\ Access(Valid, store, c)[2].k \in {"Unknown", "Downcast", "None"})
          => store' = store]_vars
\* successful removal removes exactly that id; everything else never changes the store
AccessFrame ==
  [][\A c \in Calls : (Mode = "access" /\ path' = Append(path, c)) =>
        /\ \A i \in DOMAIN store' : i \in DOMAIN store /\ store'[i] = store[i]
        /\ (DOMAIN store \ DOMAIN store') \subseteq {c.id}
        /\ (c.op \in {"get_one", "get_many", "get_occurrences", "contains_id", "get_raw"} => store' = store)]_vars

\* ---------------------------------------------------------------- emission
IdSeq == <<"a", "b", "c">>
StoreSeq(st) == [i \in 1..3 |-> [id |-> IdSeq[i], present |-> IdSeq[i] \in DOMAIN st,
                                 vals |-> IF IdSeq[i] \in DOMAIN st THEN st[IdSeq[i]].vals ELSE <<>>]]
RangeRec(rg) == [lk |-> rg.lk, lo |-> NumStr(rg.lo), hk |-> rg.hk, hi |-> NumStr(rg.hi)]
Emit == EmitOn =>
  IF Mode = "ranged"
  THEN PrintT(<<"REPLAY", ToJson([t |-> t, ctor |-> ctor, r |-> RangeRec(r),
                 cases |-> {[s |-> s, want |-> RangedParse(t, r, s)] : s \in Cands(t)}])>>)
  ELSE IF Mode = "other"
  THEN PrintT(<<"REPLAY", ToJson([pk |-> pk, ic |-> ic,
                 cases |-> {[s |-> s, want |-> OtherParse(pk, ic, s)] : s \in OtherCands}])>>)
  ELSE PrintT(<<"REPLAY", ToJson([path |-> path, rets |-> rets,
                 store |-> StoreSeq(store),
                 fan |-> {[c |-> c, r |-> Access(Valid, store, c)[2],
                           after |-> StoreSeq(Access(Valid, store, c)[1])] : c \in Calls}])>>)
=============================================================================
