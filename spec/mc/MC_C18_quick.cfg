SPECIFICATION Spec
CONSTANTS
  MaxWords = 2
  EmitOn = TRUE
INVARIANTS MustIdsAreAccepted Emit
CHECK_DEADLOCK FALSE
