------------------------------ MODULE MC_C11 ------------------------------
(* All histories of <= MaxOps public calls on one Command value, over the
   definition's command lines and {build, render_help, render_long_help,
   render_usage, clone}.  Emits every history for replay. *)
EXTENDS History, Json, IOUtils

CONSTANTS MaxOps, EmitOn

Defs == ndJsonDeserialize(IOEnv.DEFS)
VARIABLES d, hist, obj
vars == <<d, hist, obj>>

Ops == {[k |-> "parse", argv |-> Defs[d].lines[i]] : i \in 1..Len(Defs[d].lines)}
       \cup {[k |-> x, argv |-> <<>>] : x \in {"build", "render_help", "render_long_help", "render_usage", "clone"}}
Init == d \in 1..Len(Defs) /\ hist = <<>> /\ obj = FreshObj
Do(op) == Len(hist) < MaxOps /\ hist' = Append(hist, op) /\ obj' = ApplyOp(Defs[d].cmd, obj, op) /\ UNCHANGED d
Next == \E op \in Ops : Do(op)
Spec == Init /\ [][Next]_vars

\* the object state only grows, building is idempotent, bin_name is set once
Monotone == [][(obj.built => obj'.built) /\ (obj.binSet => obj'.binSet) /\ obj.subsBuilt \subseteq obj'.subsBuilt /\ obj.named \subseteq obj'.named]_vars
BuildIdempotent == LET b == [k |-> "build", argv |-> <<>>] IN
                   ApplyOp(Defs[d].cmd, ApplyOp(Defs[d].cmd, obj, b), b) = ApplyOp(Defs[d].cmd, obj, b)
\* a subcommand a parse dispatched into always has its names written (so messages cannot depend on history);
\* levels built without names exist only through the did-you-mean scan or not at all
NamedWhenDispatched == \A i \in 1..Len(hist) : hist[i].k = "parse" => DispatchPath(RunTop(Defs[d].cmd, hist[i].argv), <<>>) \subseteq obj.named
RendersLeaveNoTrace == \A op \in {o \in Ops : o.k \in {"render_help", "render_long_help", "render_usage"}} :
                          LET h2 == ApplyOp(Defs[d].cmd, obj, op) IN h2.subsBuilt = obj.subsBuilt /\ h2.named = obj.named /\ h2.binSet = obj.binSet

Emit == EmitOn => PrintT(<<"REPLAY", ToJson([d |-> d, hist |-> hist,
          obs |-> [i \in 1..Len(hist) |-> OpObs(Defs[d].cmd, hist[i])]])>>)
=============================================================================
