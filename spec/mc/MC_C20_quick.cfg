SPECIFICATION Spec
CONSTANTS
  MaxLen = 5
  Widths = {1, 2, 3, 4, 5, 1000000}
  Alphabet = {1, 2, 3, 4, 5, 6, 7, 8}
  EmitOn = TRUE
INVARIANTS PlainOk StyledOk Emit
CHECK_DEADLOCK FALSE
