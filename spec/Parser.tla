------------------------------- MODULE Parser ------------------------------
(***************************************************************************)
(* clap_builder/src/parser/parser.rs (the whole file), arg_matcher.rs,     *)
(* matched_arg.rs, validator.rs and the parse entry points of command.rs,  *)
(* transcribed branch by branch.  One loop iteration of `Parser::parse` is *)
(* `Step`; `Loop` folds it over argv; `RunLevel` is `get_matches_with`;    *)
(* `Run` is `try_get_matches_from` + `_do_parse`.                          *)
(* Every unwrap / expect / unreachable / debug_assert on the path is an    *)
(* explicit guard that yields a "panic" result naming the site.            *)
(***************************************************************************)
EXTENDS ClapDef, Lex

\* ---- results ------------------------------------------------------------
\* t: "done" | "opt" | "flagsub" | "noeq" | "nomatch" | "unneeded" | "maybe" | "notconsumed" | "noarg" |
\*    "err" | "panic" | "cont" | "sub" | "ext" | "helpsub" | "end"
R(t, st, kind, x) == [t |-> t, st |-> st, kind |-> kind, x |-> x]
IsBad(r) == r.t = "err" \/ r.t = "panic"

SrcCli == 2
SrcEnv == 1
SrcDef == 0

NoPend == [set |-> FALSE, id |-> "", ident |-> "", vals |-> <<>>, tidx |-> -1]
InitState(cur, fsat, fsskip) ==
  [ps |-> [k |-> "done", id |-> ""], pos |-> 1, valid |-> FALSE, trailing |-> FALSE,
   m |-> <<>>, pend |-> NoPend, cur |-> cur, fsat |-> fsat, fsskip |-> fsskip,
   \* history variable (not read by the parser): occurrences reacted to from the command line and
   \* the argv position of the escape, in order - the attribution ledger of DESIGN §2
   led |-> <<>>]

\* ---- matcher (ArgMatcher / FlatMap / MatchedArg) --------------------------
MIdx(m, id) == FirstIdx(m, LAMBDA e : e.id = id)
MHas(m, id) == MIdx(m, id) # 0
MGet(m, id) == m[MIdx(m, id)]
MRemove(m, id) == SelectSeq(m, LAMBDA e : e.id # id)
NewEntry(id, grp, ic) == [id |-> id, grp |-> grp, src |-> -1, idx |-> <<>>, occ |-> <<>>, ic |-> ic]
Max(a, b) == IF a >= b THEN a ELSE b
\* entry(id).or_insert(new); set_source(max); new_val_group()
MStart(m, id, grp, ic, src) ==
  IF MHas(m, id)
  THEN [m EXCEPT ![MIdx(m, id)] = [@ EXCEPT !.src = Max(@, src), !.occ = Append(@, <<>>)]]
  ELSE Append(m, [NewEntry(id, grp, ic) EXCEPT !.src = src, !.occ = <<<<>>>>])
\* append_val: to the last value group (panic site matched_arg.rs:118 when there is none)
MAddVal(m, id, v) ==
  LET i == MIdx(m, id) e == m[i] n == Len(e.occ) IN [m EXCEPT ![i] = [e EXCEPT !.occ = [e.occ EXCEPT ![n] = Append(@, v)]]]
MAddIndex(m, id, k) == LET i == MIdx(m, id) IN [m EXCEPT ![i] = [@ EXCEPT !.idx = Append(@, k)]]
Explicit(e) == e.src # SrcDef
RawFlat(e) == Concat(e.occ)     \* raw_vals_flatten (sequence of byte strings)
\* MatchedArg::check_explicit
CheckExplicitE(e, eq, val) ==
  /\ Explicit(e)
  /\ (eq => \E i \in 1..Len(RawFlat(e)) :
               IF e.ic THEN LowerAscii(RawFlat(e)[i]) = LowerAscii(val) ELSE RawFlat(e)[i] = val)
CheckExplicit(m, id, eq, val) == MHas(m, id) /\ CheckExplicitE(MGet(m, id), eq, val)
Present(m, id) == CheckExplicit(m, id, FALSE, <<>>)

\* ---- value parsers (builder/value_parser.rs, see Values.tla) --------------
SmallNum(n) == IF n >= 0 THEN Norm(FALSE, IF n = 0 THEN <<>> ELSE IF n < 10 THEN <<n>> ELSE IF n < 100 THEN <<n \div 10, n % 10>> ELSE <<n \div 100, (n \div 10) % 10, n % 10>>)
               ELSE Norm(TRUE, IF -n < 10 THEN <<-n>> ELSE IF -n < 100 THEN <<(-n) \div 10, (-n) % 10>> ELSE <<(-n) \div 100, ((-n) \div 10) % 10, (-n) % 10>>)
VPCheck(a, raw) ==     \* "" when accepted, otherwise the error kind
  LET vp == a.vp IN
  CASE vp.k = "string" -> IF IsUtf8(raw) THEN "" ELSE "InvalidUtf8"
    [] vp.k \in {"os", "path"} -> (IF vp.k = "path" /\ raw = <<>> THEN "InvalidValue" ELSE "")   \* PathBufValueParser rejects the empty string
    [] vp.k = "bool" -> IF BoolParse(raw).k = "Ok" THEN "" ELSE BoolParse(raw).k
    [] vp.k = "u8" -> LET r == RangedParse("u8", [lk |-> "unb", lo |-> SmallNum(0), hk |-> "unb", hi |-> SmallNum(0)], raw) IN IF r.k = "Ok" THEN "" ELSE r.k
    [] vp.k = "int" -> LET r == RangedParse("i64", [lk |-> "inc", lo |-> SmallNum(vp.lo), hk |-> "inc", hi |-> SmallNum(vp.hi)], raw) IN IF r.k = "Ok" THEN "" ELSE r.k
    [] vp.k = "possible" -> LET r == PossibleParse([i \in 1..Len(vp.pvs) |-> [name |-> vp.pvs[i], aliases |-> SeqToSet(vp.pv_aliases[i]), hide |-> FALSE]], a.ignore_case, raw) IN IF r.k = "Ok" THEN "" ELSE r.k
    [] vp.k = "boolish" -> IF BoolishParse(raw).k = "Ok" THEN "" ELSE BoolishParse(raw).k
    [] vp.k = "falsey" -> IF FalseyParse(raw).k = "Ok" THEN "" ELSE FalseyParse(raw).k
    [] vp.k = "nonempty" -> IF NonEmptyParse(raw).k = "Ok" THEN "" ELSE NonEmptyParse(raw).k

\* decimal value of a short digit string (Count reads its previous value back); 0 if malformed
RECURSIVE DecVal(_)
DecVal(s) == IF s = <<>> THEN 0 ELSE 10 * DecVal(SubSeq(s, 1, Len(s) - 1)) + (s[Len(s)] - 48)
DecStr(n) == IF n < 10 THEN <<48 + n>> ELSE IF n < 100 THEN <<48 + (n \div 10), 48 + (n % 10)>>
             ELSE <<48 + (n \div 100), 48 + ((n \div 10) % 10), 48 + (n % 10)>>

\* ---- Parser::remove_overrides / start_custom_arg ---------------------------
RemoveOverrides(c, m, a) ==
  LET m1 == SelectSeq(m, LAMBDA e : e.id \notin SeqToSet(a.overrides))
      \* "override anything that can override us": entries of arguments whose overrides name `a`
      m2 == SelectSeq(m1, LAMBDA e : ~(HasArg(c, e.id) /\ a.id \in SeqToSet(ArgOf(c, e.id).overrides)))
      \* an overridden argument no longer makes its groups present: its occurrences leave the groups' entries, and a group
      \* entry without occurrences leaves the matcher (remove_from_groups)
      gone == {ArgOf(c, m[i].id).idb : i \in {j \in 1..Len(m) : HasArg(c, m[j].id) /\ \A k \in 1..Len(m2) : m2[k].id # m[j].id}}
      m3 == [i \in 1..Len(m2) |-> IF m2[i].grp THEN [m2[i] EXCEPT !.occ = SelectSeq(@, LAMBDA g : \A v \in SeqToSet(g) : v \notin gone)] ELSE m2[i]]
  IN SelectSeq(m3, LAMBDA e : ~(e.grp /\ e.occ = <<>>))

RECURSIVE StartGroups(_, _, _, _)
StartGroups(m, gs, aid, src) ==
  IF gs = <<>> THEN m
  ELSE LET g == Head(gs) m1 == MStart(m, g.id, TRUE, FALSE, src)
       IN StartGroups(MAddVal(m1, g.id, aid), Tail(gs), aid, src)

StartCustomArg(c, m, a, src) ==
  LET m0 == IF src = SrcCli THEN RemoveOverrides(c, m, a) ELSE m
      m1 == MStart(m0, a.id, FALSE, a.ignore_case, src)
  IN IF src # SrcDef THEN StartGroups(m1, GroupsForArg(c, a.id), a.idb, src) ELSE m1

\* ---- Parser::push_arg_values ------------------------------------------------
RECURSIVE PushValues(_, _, _, _)
PushValues(a, st, vals, i) ==      \* returns R("done"|"err")
  IF i > Len(vals) THEN R("done", st, "", "")
  ELSE LET cur == st.cur + 1
           bad == VPCheck(a, vals[i])
           st1 == [st EXCEPT !.cur = cur]
       IN IF bad # "" THEN R("err", st1, bad, a.id)
          ELSE PushValues(a, [st1 EXCEPT !.m = MAddIndex(MAddVal(st1.m, a.id, vals[i]), a.id, cur)], vals, i + 1)

\* ---- Parser::verify_num_args -------------------------------------------------
VerifyNumArgs(c, a, vals) ==       \* "" or error kind
  IF Set(c, "ignore_errors") THEN ""
  ELSE LET actual == Len(vals) IN
       IF 0 < a.nmin /\ actual = 0 THEN "InvalidValue"            \* Error::empty_value
       ELSE IF a.nmin = a.nmax THEN (IF a.nmin # actual THEN "WrongNumberOfValues" ELSE "")
       ELSE IF actual < a.nmin THEN "TooFewValues"
       ELSE IF a.nmax < actual THEN "TooManyValues"
       ELSE ""

\* a value delimiter is a `char`: its UTF-8 encoding is what values are split at
Utf8Enc(cp) == IF cp < 128 THEN <<cp>>
               ELSE IF cp < 2048 THEN <<192 + (cp \div 64), 128 + (cp % 64)>>
               ELSE IF cp < 65536 THEN <<224 + (cp \div 4096), 128 + ((cp \div 64) % 64), 128 + (cp % 64)>>
               ELSE <<240 + (cp \div 262144), 128 + ((cp \div 4096) % 64), 128 + ((cp \div 64) % 64), 128 + (cp % 64)>>
\* delimiter handling of react (parser.rs 1015-1036)
RECURSIVE SplitVals(_, _, _, _, _)
SplitVals(vals, i, delim, dontDelimit, tidx) ==
  IF i > Len(vals) THEN <<>>
  ELSE (IF ~Contains(vals[i], Utf8Enc(delim)) \/ (dontDelimit /\ tidx # -1 /\ tidx <= i - 1)
        THEN <<vals[i]>> ELSE Split(vals[i], Utf8Enc(delim)))
       \o SplitVals(vals, i + 1, delim, dontDelimit, tidx)

\* ---- Parser::react (without the leading resolve_pending) ----------------------
ReactCore(c, st, a, ident, src, vals0, tidx0) ==
  LET nerr == IF src = SrcCli THEN VerifyNumArgs(c, a, vals0) ELSE "" IN
  IF nerr # "" THEN R("err", st, nerr, a.id)
  ELSE
  LET useMissing == vals0 = <<>> /\ a.missing # <<>>
      vals1 == IF useMissing THEN a.missing ELSE vals0
      tidx == IF useMissing THEN -1 ELSE tidx0
      dont == Set(c, "dont_delimit_trailing_values")
      vals == IF a.delim # 0 /\ ~(dont /\ tidx = 0) THEN SplitVals(vals1, 1, a.delim, dont, tidx) ELSE vals1
      bump == src = SrcCli /\ (ident = "short" \/ ident = "long")
      selfOverride == Set(c, "args_override_self") \/ a.id \in SeqToSet(a.overrides)
      had == MHas(st.m, a.id)
      stL == IF src = SrcCli THEN [st EXCEPT !.led = Append(@, [k |-> "occ", id |-> a.id, ident |-> ident, vals |-> vals, at |-> 0])] ELSE st
  IN CASE a.action = "Set" ->
            LET st1 == [stL EXCEPT !.cur = IF bump THEN @ + 1 ELSE @, !.m = MRemove(@, a.id)] IN
            IF had /\ ~selfOverride THEN R("err", st1, "ArgumentConflict", a.id)
            ELSE PushValues(a, [st1 EXCEPT !.m = StartCustomArg(c, @, a, src)], vals, 1)
       [] a.action = "Append" ->
            LET st1 == [stL EXCEPT !.cur = IF bump THEN @ + 1 ELSE @] IN
            PushValues(a, [st1 EXCEPT !.m = StartCustomArg(c, @, a, src)], vals, 1)
       [] a.action \in {"SetTrue", "SetFalse"} ->
            LET v == IF vals = <<>> THEN (IF a.action = "SetTrue" THEN <<BoolStr(TRUE)>> ELSE <<BoolStr(FALSE)>>) ELSE vals
                st1 == [stL EXCEPT !.m = MRemove(@, a.id)] IN
            IF had /\ ~selfOverride THEN R("err", st1, "ArgumentConflict", a.id)
            ELSE PushValues(a, [st1 EXCEPT !.m = StartCustomArg(c, @, a, src)], v, 1)
       [] a.action = "Count" ->
            LET existing == IF had /\ RawFlat(MGet(st.m, a.id)) # <<>> THEN DecVal(RawFlat(MGet(st.m, a.id))[1]) ELSE 0
                next == IF existing >= 255 THEN 255 ELSE existing + 1
                v == IF vals = <<>> THEN <<DecStr(next)>> ELSE vals
                st1 == [stL EXCEPT !.m = MRemove(@, a.id)] IN
            PushValues(a, [st1 EXCEPT !.m = StartCustomArg(c, @, a, src)], v, 1)
       [] a.action = "Help" -> R("err", stL, "DisplayHelp", IF ident = "short" THEN "short" ELSE "long")
       [] a.action = "Version" -> R("err", stL, "DisplayVersion", "")

\* Parser::resolve_pending: take the pending argument and react to it
ResolvePending(c, st) ==
  IF ~st.pend.set THEN R("done", st, "", "")
  ELSE IF ~HasArg(c, st.pend.id) THEN R("panic", st, "parser.rs:1120 find(pending.id).expect", "")
  ELSE ReactCore(c, [st EXCEPT !.pend = NoPend], ArgOf(c, st.pend.id), st.pend.ident, SrcCli, st.pend.vals, st.pend.tidx)
\* `let _ = self.resolve_pending(matcher);` - the outcome is ignored, the matcher keeps what was done
ResolveIgnoring(c, st) == ResolvePending(c, st).st

React(c, st, a, ident, src, vals, tidx) ==
  LET r == ResolvePending(c, st) IN IF IsBad(r) THEN r ELSE ReactCore(c, r.st, a, ident, src, vals, tidx)

\* ArgMatcher::pending_values_mut + push
PendPush(st, id, ident, trailing, v) ==
  LET p0 == IF st.pend.set THEN st.pend ELSE [set |-> TRUE, id |-> id, ident |-> ident, vals |-> <<>>, tidx |-> -1]
      p1 == IF trailing /\ p0.tidx = -1 THEN [p0 EXCEPT !.tidx = Len(p0.vals)] ELSE p0
  IN [st EXCEPT !.pend = [p1 EXCEPT !.vals = Append(@, v)]]
PendOpen(st, id, ident) ==
  IF st.pend.set THEN st ELSE [st EXCEPT !.pend = [set |-> TRUE, id |-> id, ident |-> ident, vals |-> <<>>, tidx |-> -1]]
\* ArgMatcher::needs_more_vals
NeedsMoreVals(st, a) == (IF st.pend.set /\ st.pend.id = a.id THEN Len(st.pend.vals) ELSE 0) < a.nmax

\* ---- Parser::parse_opt_value ----------------------------------------------------
ParseOptValue(c, st, ident, hasAttached, attached, a, hasEq) ==
  IF a.req_eq /\ ~hasEq
  THEN IF a.nmin = 0
       THEN LET r == React(c, st, a, ident, SrcCli, <<>>, -1) IN
            IF IsBad(r) THEN r ELSE R(IF hasAttached THEN "notconsumed" ELSE "done", r.st, "", "")
       ELSE R("noeq", st, "NoEquals", a.id)
  ELSE IF hasAttached
  THEN React(c, st, a, ident, SrcCli, <<attached>>, -1)
  ELSE LET r == ResolvePending(c, st) IN
       IF IsBad(r) THEN r ELSE R("opt", PendOpen(r.st, a.id, ident), "", a.id)

\* ---- subcommand recognition ---------------------------------------------------------
SubNames(sv) == <<sv.name>> \o sv.aliases
\* Parser::possible_subcommand -> canonical name or <<>> (none); tok must be UTF-8
PossibleSubcommand(c, tok, valid) ==
  IF ~IsUtf8(tok) \/ (Set(c, "args_conflicts_with_subcommands") /\ valid) THEN [some |-> FALSE, name |-> <<>>]
  ELSE LET subs == SubView(c)
           \* infer: per subcommand, its name if it starts with tok, else its first alias that does
           cands == SelectSeq(subs, LAMBDA s : StartsWith(s.name, tok) \/ \E i \in 1..Len(s.aliases) : StartsWith(s.aliases[i], tok))
           candName(s) == IF StartsWith(s.name, tok) THEN s.name
                          ELSE s.aliases[CHOOSE i \in 1..Len(s.aliases) : StartsWith(s.aliases[i], tok) /\ \A j \in 1..(i-1) : ~StartsWith(s.aliases[j], tok)]
           exact == FirstIdx(subs, LAMBDA s : s.name = tok \/ tok \in SeqToSet(s.aliases))
       IN IF Set(c, "infer_subcommands") /\ Len(cands) = 1 THEN [some |-> TRUE, name |-> candName(cands[1])]
          ELSE IF exact # 0 THEN [some |-> TRUE, name |-> subs[exact].name]
          ELSE [some |-> FALSE, name |-> <<>>]
\* Command::find_subcommand (name or alias) -> index into SubView or 0
FindSubcommand(c, name) == FirstIdx(SubView(c), LAMBDA s : s.name = name \/ name \in SeqToSet(s.aliases))
\* Parser::possible_long_flag_subcommand: with inference, subcommands that have a long flag and whose
\* long flag (or else one of whose long flag aliases) starts with the name; then Command::find_long_subcmd
PossibleLongFlagSub(c, name) ==
  LET subs == SubView(c)
      cands == SelectSeq(subs, LAMBDA s : s.long_flag # <<>> /\ (StartsWith(s.long_flag, name) \/ \E i \in 1..Len(s.lfa) : StartsWith(s.lfa[i], name)))
      exact == FirstIdx(subs, LAMBDA s : (s.long_flag # <<>> /\ s.long_flag = name) \/ name \in SeqToSet(s.lfa))
  IN IF Set(c, "infer_subcommands") /\ Len(cands) = 1 THEN [some |-> TRUE, name |-> cands[1].name]
     ELSE IF exact # 0 THEN [some |-> TRUE, name |-> subs[exact].name]
     ELSE [some |-> FALSE, name |-> <<>>]
FindShortSub(c, ch) == FirstIdx(SubView(c), LAMBDA s : (s.short_flag # <<>> /\ s.short_flag = ch) \/ ch \in SeqToSet(s.sfa))

\* ---- Parser::parse_long_arg ------------------------------------------------------
PsArgHyphen(c, st) == st.ps.k \in {"opt", "pos"} /\ HasArg(c, st.ps.id) /\ ArgOf(c, st.ps.id).hyphen
ParseLongArg(c, st, lg) ==     \* lg: PA_ToLong record
  IF PsArgHyphen(c, st) THEN R("maybe", st, "", "")
  ELSE IF ~lg.flagOk THEN R("nomatch", st, "", "")
  ELSE
  LET name == lg.flag
      exact == KeyLongIdx(c, name)
      \* infer_long_args: args whose long, or else whose first alias, starts with the name
      cands == SelectSeq(c.args, LAMBDA a : ~a.positional /\ ((a.long # <<>> /\ StartsWith(a.long, name))
                                                               \/ \E i \in 1..Len(a.aliases) : StartsWith(a.aliases[i], name)))
      found == IF exact # 0 THEN exact
               ELSE IF Set(c, "infer_long_args") /\ Len(cands) = 1 THEN FirstIdx(c.args, LAMBDA a : a.id = cands[1].id) ELSE 0
  IN IF found # 0
     THEN LET a == c.args[found] st1 == [st EXCEPT !.valid = TRUE] IN
          IF TakesValue(a) THEN ParseOptValue(c, st1, "long", lg.hasValue, lg.value, a, lg.hasValue)
          ELSE IF lg.hasValue THEN R("unneeded", st1, "TooManyValues", a.id)
          ELSE React(c, st1, a, "long", SrcCli, <<>>, -1)
     ELSE LET fs == PossibleLongFlagSub(c, name) p == KeyPosIdx(c, st.pos) IN
          IF fs.some THEN R("flagsub", st, "", fs.name)
          ELSE IF p # 0 /\ c.args[p].hyphen /\ ~c.args[p].last THEN R("maybe", st, "", "")
          ELSE R("nomatch", st, "", "")

\* ---- Parser::parse_short_arg ------------------------------------------------------
\* does walking the whole cluster meet a character that is no short key, or an invalid tail?
RECURSIVE ClusterHasUnknown(_, _)
ClusterHasUnknown(c, sf) ==
  LET r == ShNextFlag(sf) IN
  IF r[2].k = "none" THEN FALSE
  ELSE IF r[2].k = "err" THEN TRUE
  ELSE IF ~ContainsShort(c, r[2].v) THEN TRUE ELSE ClusterHasUnknown(c, r[1])

\* n: flags of this cluster read so far, the skipped ones included (`consumed` in parse_short_arg)
RECURSIVE WalkShort(_, _, _, _, _)
WalkShort(c, st, sf, ret, n) ==
  LET nx == ShNextFlag(sf) IN
  IF nx[2].k = "none" THEN R(ret, st, "", "")
  ELSE IF nx[2].k = "err" THEN R("nomatch", st, "", "")
  ELSE
  LET ch == nx[2].v sf1 == nx[1] ai == KeyShortIdx(c, ch) IN
  IF ai # 0
  THEN LET a == c.args[ai] st1 == [st EXCEPT !.valid = TRUE] IN
       IF ~TakesValue(a)
       THEN LET r == React(c, st1, a, "short", SrcCli, <<>>, -1) IN
            IF IsBad(r) THEN r ELSE WalkShort(c, r.st, sf1, "done", n + 1)
       ELSE LET rest == ShNextValueOs(sf1)[2]
                val0 == IF rest.k = "ok" THEN rest.v ELSE <<>>
                hasVal0 == val0 # <<>>
                hasEq == hasVal0 /\ val0[1] = EQ
                val == IF hasEq THEN Tail(val0) ELSE val0
                r == ParseOptValue(c, st1, "short", hasVal0, val, a, hasEq)
            IN IF r.t = "notconsumed" THEN WalkShort(c, r.st, sf1, "done", n + 1) ELSE r
  ELSE LET si == FindShortSub(c, ch) IN
       IF si # 0
       THEN LET rp == ResolvePending(c, st) IN
            IF IsBad(rp) THEN rp
            ELSE LET cur == rp.st.cur + 1
                     at0 == IF rp.st.fsat = -1 THEN cur ELSE rp.st.fsat
                     doneShort == ShIsEmpty(sf1)
                 \* the subcommand revisits the cluster and skips what was read, wherever in the cluster the flag subcommand stood
                 IN R("flagsub", [rp.st EXCEPT !.cur = cur, !.fsat = IF doneShort THEN -1 ELSE at0,
                                               !.fsskip = IF doneShort THEN @ ELSE n + 1], "", SubView(c)[si].name)
       ELSE R("nomatch", st, "", "")

ParseShortArg(c, st, rem) ==
  LET sf0 == ShNew(rem)
      p == KeyPosIdx(c, st.pos)
      psArg == IF st.ps.k \in {"opt", "pos"} /\ HasArg(c, st.ps.id) THEN <<ArgOf(c, st.ps.id)>> ELSE <<>>
  IN IF psArg # <<>> /\ (psArg[1].hyphen \/ (psArg[1].negnum /\ ShIsNegativeNumber(sf0))) THEN R("maybe", st, "", "")
     ELSE IF p # 0 /\ c.args[p].negnum /\ ShIsNegativeNumber(sf0) THEN R("maybe", st, "", "")
     ELSE IF p # 0 /\ c.args[p].hyphen /\ ~c.args[p].last /\ ClusterHasUnknown(c, sf0) THEN R("maybe", st, "", "")
     ELSE LET adv == ShAdvanceBy(sf0, IF st.fsskip > 3 THEN 3 ELSE st.fsskip) IN
          \* debug_assert_eq!(res, Ok(())): tracking of flag_subcmd_skip
          IF adv[2].k # "ok" \/ st.fsskip > 3 THEN R("panic", st, "parser.rs:919 debug_assert advance_by(flag_subcmd_skip)", "")
          \* a cluster parsed from its start forgets a flag-subcommand position remembered earlier
          ELSE WalkShort(c, [st EXCEPT !.fsskip = 0, !.fsat = IF st.fsskip = 0 THEN -1 ELSE @], adv[1], "noarg", st.fsskip)

\* ---- Parser::match_arg_error ----------------------------------------------------------
MatchArgErrorKind(c, st, tok) ==
  IF st.trailing /\ PossibleSubcommand(c, tok, st.valid).some THEN "UnknownArgument"       \* unnecessary_double_dash
  ELSE IF HasSubcommands(c)
       THEN IF Set(c, "args_conflicts_with_subcommands") /\ st.valid THEN "ArgumentConflict"
            \* did_you_mean (Jaro > 0.7) decides InvalidSubcommand vs falling through: either is allowed
            ELSE IF ~HasPositionals(c) \/ Set(c, "infer_subcommands") THEN "InvalidSubcommand"
            ELSE "UnknownArgument|InvalidSubcommand"
       ELSE "UnknownArgument"

\* Parser::is_new_arg
IsNewArg(c, next, a) ==
  IF a.hyphen \/ (a.negnum /\ PA_IsNegativeNumber(next)) THEN FALSE
  ELSE PA_IsLong(next) \/ PA_IsShort(next)

\* ---- one iteration of the `while let Some(arg_os) = raw_args.next()` loop -------------
\* hasNext/next: raw_args.peek(); rest: raw_args.remaining()
OptValueStep(c, st, tok) ==
  LET a == ArgOf(c, st.ps.id) IN
  IF a.term # <<>> /\ tok = a.term THEN R("cont", [st EXCEPT !.ps = [k |-> "done", id |-> ""]], "", "")
  ELSE LET st1 == PendPush(st, a.id, "", FALSE, tok) IN
       R("cont", [st1 EXCEPT !.ps = IF NeedsMoreVals(st1, a) THEN [k |-> "opt", id |-> a.id] ELSE [k |-> "done", id |-> ""]], "", "")

PositionalStep(c, st, tok, hasNext, next) ==
  LET pc == PositionalCount(c)
      pos0 == st.pos
      secondToLast == pos0 + 1 = pc
      poss == Positionals(c)
      lowIndexMults == /\ secondToLast
                       /\ \E i \in 1..Len(poss) : IsMultiple(poss[i]) /\ pc # poss[i].idx
                       /\ (poss # <<>> /\ ~poss[Len(poss)].last)
      cur0 == KeyPosIdx(c, pos0)
      isTerminated == cur0 # 0 /\ c.args[cur0].term # <<>>
      missingPos == Set(c, "allow_missing_positional") /\ secondToLast /\ ~st.trailing
      containsLast == \E i \in 1..Len(c.args) : c.args[i].last
      skipCurrent == IF hasNext
                     THEN (IF cur0 # 0 THEN ~st.trailing /\ (IsNewArg(c, next, c.args[cur0]) \/ PossibleSubcommand(c, next, st.valid).some) ELSE TRUE)
                     ELSE TRUE
      pos == IF (lowIndexMults \/ missingPos) /\ ~isTerminated THEN (IF skipCurrent THEN pos0 + 1 ELSE pos0)
             ELSE IF st.trailing /\ (Set(c, "allow_missing_positional") \/ containsLast) THEN pc
             ELSE pos0
      ai == KeyPosIdx(c, pos)
      stp == [st EXCEPT !.pos = pos]
  IN IF ai # 0
     THEN LET a == c.args[ai] IN
          IF a.last /\ ~st.trailing THEN R("err", ResolveIgnoring(c, stp), "UnknownArgument", "")
          ELSE LET st1 == IF a.tva THEN [stp EXCEPT !.trailing = TRUE] ELSE stp
                   needResolve == ~(st1.pend.set /\ st1.pend.id = a.id) \/ ~IsMultipleValues(a)
                   rp == IF needResolve THEN ResolvePending(c, st1) ELSE R("done", st1, "", "")
               IN IF IsBad(rp) THEN rp
                  ELSE IF a.term # <<>> /\ tok = a.term
                  THEN R("cont", [rp.st EXCEPT !.pos = @ + 1, !.ps = [k |-> "done", id |-> ""], !.valid = TRUE], "", "")
                  ELSE LET st2 == PendPush(rp.st, a.id, "index", rp.st.trailing, tok) IN
                       IF ~IsMultiple(a)
                       THEN R("cont", [st2 EXCEPT !.pos = @ + 1, !.ps = [k |-> "done", id |-> ""], !.valid = TRUE], "", "")
                       ELSE R("cont", [st2 EXCEPT !.ps = [k |-> "pos", id |-> a.id], !.valid = TRUE], "", "")
     ELSE IF Set(c, "allow_external_subcommands")
     THEN IF ~IsUtf8(tok) THEN R("err", ResolveIgnoring(c, stp), "InvalidUtf8", "")
          ELSE R("ext", stp, "", tok)
     ELSE R("err", ResolveIgnoring(c, stp), MatchArgErrorKind(c, stp, tok), "")

Step(c, st, tok, hasNext, next) ==
  IF ~st.trailing
  THEN
    LET scCheck == Set(c, "subcommand_precedence_over_arg") \/ st.ps.k = "done"
        sc == IF scCheck THEN PossibleSubcommand(c, tok, st.valid) ELSE [some |-> FALSE, name |-> <<>>]
    IN
    IF sc.some
    THEN IF sc.name = HELP /\ ~c.s.eff_disable_help_subcommand THEN R("helpsub", st, "", "")
         ELSE R("sub", st, "", sc.name)
    ELSE
    LET lg == PA_ToLong(tok) sh == PA_ToShort(tok) IN
    LET afterFlag(st2) ==    \* the code after the long/short ladder: pending option value, else positional
          IF st2.ps.k = "opt" THEN OptValueStep(c, st2, tok) ELSE PositionalStep(c, st2, tok, hasNext, next)
    IN
    IF PA_IsEscape(tok)
    THEN IF PsArgHyphen(c, st) THEN afterFlag(st)
         ELSE \* matcher.start_trailing()
              R("cont", [st EXCEPT !.trailing = TRUE,
                                   !.pend = IF st.pend.set /\ st.pend.tidx = -1 THEN [st.pend EXCEPT !.tidx = Len(st.pend.vals)] ELSE st.pend], "", "")
    ELSE IF IsSome(lg)
    THEN LET r == ParseLongArg(c, st, lg.v) IN
         CASE r.t = "done" -> R("cont", [r.st EXCEPT !.ps = [k |-> "done", id |-> ""]], "", "")
           [] r.t = "opt" -> R("cont", [r.st EXCEPT !.ps = [k |-> "opt", id |-> r.x]], "", "")
           [] r.t = "flagsub" -> R("sub", r.st, "", r.x)
           [] r.t = "noeq" -> R("err", ResolveIgnoring(c, r.st), "NoEquals", "")
           [] r.t = "nomatch" -> R("err", ResolveIgnoring(c, r.st), "UnknownArgument", "")
           [] r.t = "unneeded" -> R("err", ResolveIgnoring(c, r.st), "TooManyValues", "")
           [] r.t = "maybe" -> afterFlag(r.st)
           [] r.t = "notconsumed" -> R("panic", r.st, "parser.rs:203 unreachable AttachedValueNotConsumed", "")
           [] OTHER -> r
    ELSE IF IsSome(sh)
    THEN LET r == ParseShortArg(c, st, sh.v) IN
         CASE r.t = "done" -> R("cont", [r.st EXCEPT !.ps = [k |-> "done", id |-> ""]], "", "")
           [] r.t = "opt" -> R("cont", [r.st EXCEPT !.ps = [k |-> "opt", id |-> r.x]], "", "")
           [] r.t = "flagsub" -> R("subkeep", r.st, "", r.x)
           [] r.t = "noeq" -> R("err", ResolveIgnoring(c, r.st), "NoEquals", "")
           [] r.t = "nomatch" -> R("err", ResolveIgnoring(c, r.st), "UnknownArgument", "")
           [] r.t \in {"maybe", "noarg"} -> afterFlag(r.st)
           [] OTHER -> r
    ELSE afterFlag(st)
  ELSE PositionalStep(c, st, tok, hasNext, next)

\* ---- Parser::parse_help_subcommand ----------------------------------------------------
\* walks the remaining words down the (built) tree; returns the error kind
RECURSIVE HelpWalk(_, _, _)
HelpWalk(c, words, i) ==
  IF i > Len(words) THEN "DisplayHelp"
  ELSE LET si == FindSubcommand(c, words[i]) IN
       IF si = 0 THEN "InvalidSubcommand"
       ELSE LET sv == SubView(c)[si] IN
            IF sv.auto THEN (IF i = Len(words) THEN "DisplayHelp" ELSE "InvalidSubcommand")   \* `help help`: the help subcommand has no subcommands of its own
            ELSE HelpWalk(Build(c.subs[sv.i], c.childInh), words, i + 1)

\* ---- the parse loop ----------------------------------------------------------------------
RECURSIVE Loop(_, _, _, _)
Loop(c, st, argv, i) ==
  IF i > Len(argv) THEN R("end", st, "", "")
  ELSE LET r == Step(c, st, argv[i], i < Len(argv), IF i < Len(argv) THEN argv[i + 1] ELSE <<>>) IN
       IF r.t = "cont"
       THEN LET st2 == IF ~st.trailing /\ r.st.trailing /\ PA_IsEscape(argv[i])
                       THEN [r.st EXCEPT !.led = Append(@, [k |-> "escape", id |-> "", ident |-> "", vals |-> <<>>, at |-> i])] ELSE r.st
            IN Loop(c, st2, argv, i + 1)
       ELSE [r EXCEPT !.x = [x |-> r.x, i |-> i]]

\* ---- Parser::add_env / add_defaults -----------------------------------------------------
RECURSIVE AddEnvFrom(_, _, _)
AddEnvFrom(c, st, i) ==
  IF i > Len(c.args) THEN R("done", st, "", "")
  ELSE LET a == c.args[i] IN
       IF MHas(st.m, a.id) \/ ~a.has_env THEN AddEnvFrom(c, st, i + 1)
       ELSE LET r == React(c, st, a, "", SrcEnv, <<a.env>>, -1) IN
            IF IsBad(r) THEN r ELSE AddEnvFrom(c, r.st, i + 1)

\* the first default_value_if rule whose condition holds (looks at the matcher as it is now, any source)
DefaultIfRule(st, a) ==
  FirstIdx(a.default_ifs, LAMBDA d : MHas(st.m, d.id) /\ (d.eq => \E k \in 1..Len(RawFlat(MGet(st.m, d.id))) : RawFlat(MGet(st.m, d.id))[k] = d.val))

RECURSIVE AddDefaultsFrom(_, _, _)
AddDefaultsFrom(c, st, i) ==
  IF i > Len(c.args) THEN R("done", st, "", "")
  ELSE LET a == c.args[i]
           rule == IF a.default_ifs # <<>> /\ ~MHas(st.m, a.id) THEN DefaultIfRule(st, a) ELSE 0
       IN IF rule # 0
          THEN (IF a.default_ifs[rule].has_def
                THEN LET r == React(c, st, a, "", SrcDef, <<a.default_ifs[rule].def>>, -1) IN
                     IF IsBad(r) THEN r ELSE AddDefaultsFrom(c, r.st, i + 1)
                ELSE AddDefaultsFrom(c, st, i + 1))
          ELSE IF a.defaults # <<>> /\ ~MHas(st.m, a.id)
          THEN LET r == React(c, st, a, "", SrcDef, a.defaults, -1) IN
               IF IsBad(r) THEN r ELSE AddDefaultsFrom(c, r.st, i + 1)
          ELSE AddDefaultsFrom(c, st, i + 1)

\* ---- Validator (validator.rs) -----------------------------------------------------------
\* gather_direct_conflicts
DirectConflicts(c, id) ==
  IF HasArg(c, id)
  THEN LET a == ArgOf(c, id) gs == GroupsForArg(c, id) IN
       SeqToSet(a.conflicts) \cup SeqToSet(a.overrides)
         \cup UNION {SeqToSet(gs[i].conflicts) \cup (IF gs[i].multiple THEN {} ELSE SeqToSet(gs[i].args) \ {id}) : i \in 1..Len(gs)}
  ELSE IF HasGroup(c, id) THEN SeqToSet(GroupOf(c, id).conflicts)
  ELSE {}
ExplicitIds(m) == {m[i].id : i \in {j \in 1..Len(m) : Explicit(m[j])}}
\* Conflicts::gather_conflicts: explicit entries other than id that conflict with it in either direction
GatherConflicts(c, m, id) ==
  {o \in ExplicitIds(m) \ {id} : o \in DirectConflicts(c, id) \/ id \in DirectConflicts(c, o)}

\* Command::unroll_args_in_group
RECURSIVE UnrollGroup(_, _, _)
UnrollGroup(c, todo, seen) ==
  IF todo = {} THEN {}
  ELSE LET g == CHOOSE x \in todo : TRUE
           members == IF HasGroup(c, g) THEN SeqToSet(GroupOf(c, g).args) ELSE {}
           argsIn == {x \in members : HasArg(c, x)}
           groupsIn == {x \in members : ~HasArg(c, x) /\ x \notin seen}
       IN argsIn \cup UnrollGroup(c, (todo \ {g}) \cup groupsIn, seen \cup {g})
ArgsInGroup(c, g) == UnrollGroup(c, {g}, {})

\* Command::unroll_arg_requires with the validator's closure: every predicate is judged against
\* the values of the argument the walk started from (`matched`)
RECURSIVE UnrollRequires(_, _, _, _)
UnrollRequires(c, e, todo, processed) ==
  IF todo = {} THEN {}
  ELSE LET x == CHOOSE y \in todo : TRUE IN
       IF x \in processed \/ ~HasArg(c, x) THEN UnrollRequires(c, e, todo \ {x}, processed \cup {x})
       ELSE LET reqs == ArgOf(c, x).requires
                hit == {reqs[i].id : i \in {j \in 1..Len(reqs) : CheckExplicitE(e, reqs[j].eq, reqs[j].val)}}
                deeper == {r \in hit : HasArg(c, r) /\ ArgOf(c, r).requires # <<>>}
            IN hit \cup UnrollRequires(c, e, (todo \ {x}) \cup deeper, processed \cup {x})

\* required_graph + gather_requires
RequiredSet(c, m) ==
  LET static == {c.args[i].id : i \in {j \in 1..Len(c.args) : c.args[j].required}}
                \cup UNION {{c.groups[i].id} \cup SeqToSet(c.groups[i].requires) : i \in {j \in 1..Len(c.groups) : c.groups[j].required}}
      fromArgs == UNION {UnrollRequires(c, m[i], {m[i].id}, {}) : i \in {j \in 1..Len(m) : Explicit(m[j]) /\ HasArg(c, m[j].id)}}
      fromGroups == UNION {SeqToSet(GroupOf(c, m[i].id).requires) : i \in {j \in 1..Len(m) : Explicit(m[j]) /\ ~HasArg(c, m[j].id) /\ HasGroup(c, m[j].id)}}
  IN static \cup fromArgs \cup fromGroups

IsMissingRequiredOk(c, m, a) ==
  \/ GatherConflicts(c, m, a.id) # {}
  \/ \E i \in 1..Len(GroupsForArg(c, a.id)) : GatherConflicts(c, m, GroupsForArg(c, a.id)[i].id) # {}

FailsRequiredUnless(m, a) ==
  /\ (a.r_unless_all = <<>> \/ ~(\A i \in 1..Len(a.r_unless_all) : Present(m, a.r_unless_all[i])))
  /\ ~(\E i \in 1..Len(a.r_unless) : Present(m, a.r_unless[i]))

MissingRequired(c, m) ==
  LET exclusivePresent == \E i \in 1..Len(m) : Explicit(m[i]) /\ HasArg(c, m[i].id) /\ ArgOf(c, m[i].id).exclusive
      req == {r \in RequiredSet(c, m) : ~Present(m, r)}
      m1 == {r \in req : HasArg(c, r) /\ ~exclusivePresent /\ ~IsMissingRequiredOk(c, m, ArgOf(c, r))}
      m2 == {r \in req : ~HasArg(c, r) /\ HasGroup(c, r) /\ ~(\E x \in ArgsInGroup(c, r) : Present(m, x))}
      cond(a) == \/ \E i \in 1..Len(a.r_ifs) : CheckExplicit(m, a.r_ifs[i].id, TRUE, a.r_ifs[i].val)
                 \/ (a.r_ifs_all # <<>> /\ \A i \in 1..Len(a.r_ifs_all) : CheckExplicit(m, a.r_ifs_all[i].id, TRUE, a.r_ifs_all[i].val))
                 \/ ((a.r_unless # <<>> \/ a.r_unless_all # <<>>) /\ FailsRequiredUnless(m, a))
      m3 == {c.args[i].id : i \in {j \in 1..Len(c.args) : ~Present(m, c.args[j].id) /\ ~exclusivePresent /\ cond(c.args[j])}}
      base == m1 \cup m3
      highest == LET idxs == {ArgOf(c, x).idx : x \in {y \in base : ~ArgOf(c, y).last}} \cup {0} IN CHOOSE h \in idxs : \A k \in idxs : k <= h
      m4 == IF Set(c, "allow_missing_positional") THEN {}
            ELSE {c.args[i].id : i \in {j \in 1..Len(c.args) : c.args[j].positional /\ ~Present(m, c.args[j].id) /\ c.args[j].idx < highest}}
  IN m1 \cup m2 \cup m3 \cup m4

Validate(c, m, hasSub) ==     \* "" or the error kind, in the order of Validator::validate
  LET explicitArgs == {i \in 1..Len(m) : Explicit(m[i]) /\ HasArg(c, m[i].id)} IN
  IF ~hasSub /\ Set(c, "arg_required_else_help") /\ ExplicitIds(m) = {} THEN "DisplayHelpOnMissingArgumentOrSubcommand"
  ELSE IF ~hasSub /\ Set(c, "subcommand_required") THEN "MissingSubcommand"
  ELSE IF Cardinality(explicitArgs) > 1 /\ \E i \in explicitArgs : ArgOf(c, m[i].id).exclusive THEN "ArgumentConflict"
  ELSE IF \E i \in explicitArgs : GatherConflicts(c, m, m[i].id) # {} THEN "ArgumentConflict"
  ELSE IF ~(Set(c, "subcommand_negates_reqs") /\ hasSub) /\ MissingRequired(c, m) # {} THEN "MissingRequiredArgument"
  ELSE ""

\* ---- Parser::get_matches_with / parse / parse_subcommand ---------------------------------
\* level result: [err, panic, kind, site, m, sub]; sub = [set, name, ext, lv]
NoSub == [set |-> FALSE, name |-> <<>>, ext |-> FALSE, lv |-> <<>>]
LevelRes(err, panic, kind, m, sub) == [err |-> err, panic |-> panic, kind |-> kind, m |-> m, sub |-> sub, led |-> <<>>]
IgnoreBad(r) == r.st     \* `let _ = ...`
LevelResL(err, panic, kind, st, sub) == [err |-> err, panic |-> panic, kind |-> kind, m |-> st.m, sub |-> sub, led |-> st.led]

RECURSIVE RunLevel(_, _, _, _, _, _)
RunLevel(c, argv, start, cur, fsat, fsskip) ==
  LET st0 == InitState(cur, fsat, fsskip)
      lr == Loop(c, st0, argv, start)
      \* what `parse` returns: [ok, st, kind, panic, sub]
      parsed ==
        CASE lr.t = "end" -> [ok |-> TRUE, panic |-> FALSE, st |-> lr.st, kind |-> "", sub |-> NoSub]
          [] lr.t = "err" -> [ok |-> FALSE, panic |-> FALSE, st |-> lr.st, kind |-> lr.kind, sub |-> NoSub]
          [] lr.t = "panic" -> [ok |-> FALSE, panic |-> TRUE, st |-> lr.st, kind |-> lr.kind, sub |-> NoSub]
          [] lr.t = "helpsub" ->
               \* (the words walked are kept - in an *unset* sub slot - for the predicates that need the command the walk ended in)
               [ok |-> FALSE, panic |-> FALSE, st |-> lr.st, kind |-> HelpWalk(c, SubSeq(argv, lr.x.i + 1, Len(argv)), 1),
                sub |-> [NoSub EXCEPT !.name = HELP, !.lv = SubSeq(argv, lr.x.i + 1, Len(argv))]]
          [] lr.t = "ext" ->
               LET rest == SubSeq(argv, lr.x.i + 1, Len(argv))
                   em == <<[id |-> "", grp |-> FALSE, src |-> SrcCli, idx |-> <<>>, occ |-> <<rest>>, ic |-> FALSE]>>
               IN [ok |-> TRUE, panic |-> FALSE, st |-> lr.st, kind |-> "",
                   sub |-> [set |-> TRUE, name |-> lr.x.x, ext |-> TRUE, lv |-> LevelRes(FALSE, FALSE, "", em, NoSub)]]
          [] OTHER ->   \* "sub" | "subkeep"
               LET st == lr.st
                   keep == lr.t = "subkeep" /\ st.fsat # -1
                   skip == st.fsskip        \* recorded when the flag subcommand was found
                   si == FindSubcommand(c, lr.x.x)
               IN IF Set(c, "args_conflicts_with_subcommands") /\ st.valid
                  THEN \* subcommand_conflict: ids that are not arguments (group entries) are skipped (filter_map)
                       [ok |-> FALSE, panic |-> FALSE, st |-> st, kind |-> "ArgumentConflict", sub |-> NoSub]
                  ELSE IF si = 0 \/ SubView(c)[si].auto
                  THEN [ok |-> FALSE, panic |-> TRUE, st |-> st, kind |-> "parser.rs:494 find_subcommand.expect", sub |-> NoSub]
                  ELSE LET sv == SubView(c)[si]
                           child == Build(c.subs[sv.i], c.childInh)
                           cr == IF keep THEN RunLevel(child, argv, lr.x.i, st.cur, st.fsat, skip)
                                 ELSE RunLevel(child, argv, lr.x.i + 1, 0, -1, 0)
                       IN IF cr.panic THEN [ok |-> FALSE, panic |-> TRUE, st |-> st, kind |-> cr.kind, sub |-> NoSub]
                          ELSE IF cr.err /\ ~Set(c, "ignore_errors")
                          THEN [ok |-> FALSE, panic |-> FALSE, st |-> st, kind |-> cr.kind,
                                sub |-> [set |-> TRUE, name |-> sv.name, ext |-> FALSE, lv |-> cr]]   \* kept for the justification predicates only
                          ELSE [ok |-> TRUE, panic |-> FALSE, st |-> st, kind |-> "",
                                sub |-> [set |-> TRUE, name |-> sv.name, ext |-> FALSE, lv |-> [cr EXCEPT !.err = FALSE, !.kind = ""]]]
  IN IF parsed.panic THEN LevelResL(TRUE, TRUE, parsed.kind, parsed.st, NoSub)
     ELSE IF ~parsed.ok
     THEN (IF Set(c, "ignore_errors")
           THEN LET e == IgnoreBad(AddEnvFrom(c, parsed.st, 1)) d == IgnoreBad(AddDefaultsFrom(c, e, 1))
                IN LevelResL(TRUE, FALSE, parsed.kind, d, parsed.sub)
           ELSE LevelResL(TRUE, FALSE, parsed.kind, parsed.st, parsed.sub))
     ELSE LET r1 == ResolvePending(c, parsed.st) IN
          IF IsBad(r1) THEN LevelResL(TRUE, r1.t = "panic", r1.kind, r1.st, parsed.sub)
          ELSE LET r2 == AddEnvFrom(c, r1.st, 1) IN
          IF IsBad(r2) THEN LevelResL(TRUE, r2.t = "panic", r2.kind, r2.st, parsed.sub)
          ELSE LET r3 == AddDefaultsFrom(c, r2.st, 1) IN
          IF IsBad(r3) THEN LevelResL(TRUE, r3.t = "panic", r3.kind, r3.st, parsed.sub)
          ELSE LET v == Validate(c, r3.st.m, parsed.sub.set) IN
               LevelResL(v # "", FALSE, v, r3.st, parsed.sub)

\* ---- Command::_do_parse: globals --------------------------------------------------------
RECURSIVE UsedGlobals(_, _)
UsedGlobals(c, lv) ==     \* get_used_global_args: sequence of ids along the chain
  LET own == SelectSeq([i \in 1..Len(c.args) |-> IF c.args[i].global THEN c.args[i].id ELSE ""], LAMBDA x : x # "")
      si == IF lv.sub.set THEN FindSubcommand(c, lv.sub.name) ELSE 0
  IN IF si # 0 /\ ~SubView(c)[si].auto /\ ~lv.sub.ext
     THEN own \o UsedGlobals(Build(c.subs[SubView(c)[si].i], c.childInh), lv.sub.lv)
     ELSE own

MInsert(m, e) == IF MHas(m, e.id) THEN [m EXCEPT ![MIdx(m, e.id)] = e] ELSE Append(m, e)
RECURSIVE InsertAll(_, _)
InsertAll(m, es) == IF es = <<>> THEN m ELSE InsertAll(MInsert(m, Head(es)), Tail(es))

\* ArgMatcher::fill_in_global_values; returns <<level', vals_map'>>
RECURSIVE FillGlobals(_, _, _)
FillGlobals(lv, gids, vm) ==
  LET step(acc, g) == IF MHas(lv.m, g)
                      THEN LET ma == MGet(lv.m, g)
                               pick == IF MHas(acc, g) /\ MGet(acc, g).src > ma.src THEN MGet(acc, g) ELSE ma
                           IN MInsert(acc, pick)
                      ELSE acc
      vm1 == LET F[i \in 0..Len(gids)] == IF i = 0 THEN vm ELSE step(F[i - 1], gids[i]) IN F[Len(gids)]
      down == IF lv.sub.set THEN FillGlobals(lv.sub.lv, gids, vm1) ELSE <<lv, vm1>>
      vm2 == down[2]
      sub2 == IF lv.sub.set THEN [lv.sub EXCEPT !.lv = down[1]] ELSE lv.sub
  IN <<[lv EXCEPT !.m = InsertAll(lv.m, vm2), !.sub = sub2], vm2>>

\* ---- observation --------------------------------------------------------------------------
SrcName(s) == CASE s = SrcCli -> "cli" [] s = SrcEnv -> "env" [] s = SrcDef -> "def" [] OTHER -> "none"
EntryObs(e) == [id |-> e.id, src |-> SrcName(e.src), idx |-> e.idx, occ |-> e.occ]
\* ids() may list globals of deeper levels (fill_in_global_values inserts the whole vals_map at every
\* level); every accessor rejects such an id at that level, so it is not part of the observation
RECURSIVE ChainObs(_, _)
ChainObs(c, lv) ==
  LET vis == SelectSeq(lv.m, LAMBDA e : e.id = "" \/ HasArg(c, e.id) \/ HasGroup(c, e.id))
      si == IF lv.sub.set /\ ~lv.sub.ext THEN FindSubcommand(c, lv.sub.name) ELSE 0
  IN <<[args |-> [i \in 1..Len(vis) |-> EntryObs(vis[i])], sub |-> IF lv.sub.set THEN lv.sub.name ELSE <<>>, has_sub |-> lv.sub.set]>>
     \o (IF ~lv.sub.set THEN <<>>
         ELSE IF lv.sub.ext THEN <<[args |-> [i \in 1..Len(lv.sub.lv.m) |-> EntryObs(lv.sub.lv.m[i])], sub |-> <<>>, has_sub |-> FALSE]>>
         ELSE ChainObs(Build(c.subs[SubView(c)[si].i], c.childInh), lv.sub.lv))

IsStdoutKind(k) == k \in {"DisplayHelp", "DisplayVersion"}
ErrObs(kind) == [outcome |-> "Err", kind |-> kind, stderr |-> ~IsStdoutKind(kind), exit |-> IF IsStdoutKind(kind) THEN 0 ELSE 2, chain |-> <<>>]

\* ---- Command::try_get_matches_from_mut: what becomes of argv[0] ---------------------------------
\* Path::file_stem on bytes, for the shapes the families use (no `.`/`..` components): the last component
\* (trailing slashes dropped) up to its last dot, unless that dot is its first byte
LastIdxOf(b, x) == IF \E i \in 1..Len(b) : b[i] = x THEN CHOOSE i \in 1..Len(b) : b[i] = x /\ \A j \in (i + 1)..Len(b) : b[j] # x ELSE 0
RECURSIVE DropTrailingSlashes(_)
DropTrailingSlashes(b) == IF b # <<>> /\ b[Len(b)] = 47 THEN DropTrailingSlashes(SubSeq(b, 1, Len(b) - 1)) ELSE b
FileName(b) == LET t == DropTrailingSlashes(b) IN SubSeq(t, LastIdxOf(t, 47) + 1, Len(t))
FileStem(b) == LET n == FileName(b) d == LastIdxOf(n, 46) IN IF d > 1 THEN SubSeq(n, 1, d - 1) ELSE n
\* The harness passes argv[0] = the command's name unless the definition says no_binary_name or multicall; the
\* specification's argv is what follows it.  With no_binary_name nothing is stripped; with multicall argv[1] is the
\* path the program was called by and its file stem is re-inserted as the first word.
\* DevMulticallArgv0Fallback: when that path has no UTF-8 file stem the already consumed argv[0] is forgotten and the
\* ordinary binary-name step consumes the *next* word too.
EffArgv(def, argv) ==
  IF ~def.s.multicall \/ argv = <<>> THEN argv
  ELSE LET stem == FileStem(argv[1]) IN
       IF stem # <<>> /\ IsUtf8(stem) THEN <<stem>> \o Tail(argv)
       ELSE IF Len(argv) >= 2 THEN Tail(Tail(argv)) ELSE <<>>
\* try_get_matches_from + _do_parse
RunTop(def, argv0) == RunLevel(Build(def, NoInherit), EffArgv(def, argv0), 1, 0, -1, 0)
Run(def, argv0) ==
  LET c == Build(def, NoInherit)
      top == RunTop(def, argv0)
  IN IF top.panic THEN [outcome |-> "Panic", kind |-> "", stderr |-> FALSE, exit |-> 0, chain |-> <<>>, site |-> top.kind]
     ELSE IF top.err /\ ~(Set(c, "ignore_errors") /\ ~IsStdoutKind(top.kind)) THEN ErrObs(top.kind) @@ [site |-> ""]
     ELSE LET g == FillGlobals(top, UsedGlobals(c, top), <<>>)[1]
          IN [outcome |-> "Ok", kind |-> "", stderr |-> FALSE, exit |-> 0, chain |-> ChainObs(c, g), site |-> ""]
=============================================================================
