------------------------------ MODULE Complete ------------------------------
(***************************************************************************)
(* C18: what the dynamic completion engine                                 *)
(* (clap_complete/src/engine/complete.rs) may and must offer, stated       *)
(* against the *parser's* view of the words before the cursor: the level   *)
(* reached, whether an option still awaits a value and whether `--` was    *)
(* seen are taken from Parser.tla (Loop over the preceding words), not     *)
(* from the engine's own shadow parser.                                    *)
(***************************************************************************)
EXTENDS Parser

\* ---- the parser's state after the words before the cursor -------------------
\* [ok, ext, c, st]: ok = the prefix is a line the parser is still happily consuming
\* `via` collects how the parser descended: "flagsub" (short/long flag subcommand), "infer" (a prefix of a
\* subcommand name under infer_subcommands) - used to name recorded witness classes
\* a multi-value positional that is not the last one (parser.rs "low index multiples")
LowIndexShapeP(c) == LET ps == Positionals(c) IN \E k \in 1..Len(ps) : IsMultiple(ps[k]) /\ ps[k].idx # Len(ps)
RECURSIVE PrefixLevelV(_, _, _, _, _, _, _)
PrefixLevelV(c, argv, start, cur, fsat, fsskip, via) ==
  LET lr == Loop(c, InitState(cur, fsat, fsskip), argv, start) IN
  CASE lr.t = "end" -> [ok |-> TRUE, ext |-> FALSE, c |-> c, st |-> lr.st, via |-> via, help |-> FALSE, hw |-> <<>>]
    [] lr.t = "ext" -> [ok |-> TRUE, ext |-> TRUE, c |-> c, st |-> lr.st, via |-> via, help |-> FALSE, hw |-> <<>>]
    \* the generated help subcommand: the words after it walk the mirror of the tree below this level
    [] lr.t = "helpsub" -> [ok |-> FALSE, ext |-> FALSE, c |-> c, st |-> lr.st, via |-> via, help |-> TRUE, hw |-> SubSeq(argv, lr.x.i + 1, Len(argv))]
    [] lr.t \in {"sub", "subkeep"} ->
         LET st == lr.st
             keep == lr.t = "subkeep" /\ st.fsat # -1
             si == FindSubcommand(c, lr.x.x)
             tok == argv[lr.x.i]
             how == (IF FindSubcommand(c, tok) # 0 THEN {} ELSE IF IsSome(PA_ToLong(tok)) \/ IsSome(PA_ToShort(tok)) THEN {"flagsub"} ELSE {"infer"})
                    \cup (IF st.ps.k # "done" THEN {"precedence"} ELSE {})
                    \cup (IF LowIndexShapeP(c) /\ st.pos > 1 THEN {"lowindex"} ELSE {})
         IN IF (Set(c, "args_conflicts_with_subcommands") /\ st.valid) \/ si = 0 \/ SubView(c)[si].auto
            THEN [ok |-> FALSE, ext |-> FALSE, c |-> c, st |-> st, via |-> via, help |-> FALSE, hw |-> <<>>]
            ELSE LET child == Build(c.subs[SubView(c)[si].i], c.childInh) IN
                 IF keep THEN PrefixLevelV(child, argv, lr.x.i, st.cur, st.fsat, st.fsskip, via \cup how)
                 ELSE PrefixLevelV(child, argv, lr.x.i + 1, 0, -1, 0, via \cup how)
    [] OTHER -> [ok |-> FALSE, ext |-> FALSE, c |-> c, st |-> lr.st, via |-> via, help |-> FALSE, hw |-> <<>>]     \* error, panic
PrefixLevel(c, argv, start, cur, fsat, fsskip) == PrefixLevelV(c, argv, start, cur, fsat, fsskip, {})

\* "where a new argument may start": no option awaiting a value, before any `--`
\* (a positional that accepts hyphen values and is still collecting swallows every further token, flags included)
\* "before any `--`" is read literally as well: a bare `--` among the preceding words switches the requirement off even
\* where the parser consumed it as a hyphen value of a pending option (the engine takes every bare `--` for the escape)
\* A positional that still lacks values it must have (num_args(2) after one value) awaits a value just as an option does:
\* a new argument there can only end in WrongNumberOfValues, and the engine rightly completes the value
PosAwaitsValue(c, st) == st.ps.k = "pos" /\ st.pend.set /\ st.pend.id = st.ps.id /\ HasArg(c, st.ps.id) /\ Len(st.pend.vals) < ArgOf(c, st.ps.id).nmin
NewArgMayStart(p, before) == /\ p.ok /\ ~p.ext /\ p.st.ps.k # "opt" /\ ~p.st.trailing /\ ~PsArgHyphen(p.c, p.st) /\ ~PosAwaitsValue(p.c, p.st)
                             /\ \A k \in 1..Len(before) : before[k] # <<45, 45>>

\* ---- spellings that extend the word under the cursor ---------------------------
DD == <<45, 45>>
VisibleArg(a) == ~a.hide
\* long spellings offered for an argument (Arg::alias is a hidden alias: offered only as hidden)
LongSpellings(a) == (IF a.long # <<>> THEN {DD \o a.long} ELSE {}) \cup {DD \o a.valiases[i] : i \in 1..Len(a.valiases)}
ShortSpellings(a) == IF a.short # <<>> THEN {<<45>> \o a.short} ELSE {}
ArgExtends(a, w) ==
  \/ \E s \in LongSpellings(a) : StartsWith(s, w)
  \/ (w \in {<<>>, <<45>>} /\ ShortSpellings(a) # {})
SubExtends(s, w) == StartsWith(s.name, w)

\* ids the engine must represent (C18 completeness) at level c for word w
MustIds(c, st, w) ==
  IF ~IsUtf8(w) THEN {}
  ELSE LET anyVisibleArg == \E i \in 1..Len(c.args) : VisibleArg(c.args[i]) /\ ArgExtends(c.args[i], w)
           subs == SubView(c)
       IN {[k |-> "arg", id |-> c.args[i].id] : i \in {j \in 1..Len(c.args) : VisibleArg(c.args[j]) /\ ArgExtends(c.args[j], w)}}
          \* subcommand names are recognised only where the parser looks for them (parser.rs 107-121)
          \cup (IF (w = <<>> \/ (w[1] # 45)) /\ (Set(c, "subcommand_precedence_over_arg") \/ st.ps.k = "done")
                   /\ ~(Set(c, "args_conflicts_with_subcommands") /\ st.valid)
                THEN {[k |-> "command", id |-> subs[i].name] : i \in {j \in 1..Len(subs) : SubExtends(subs[j], w) /\ (subs[j].auto \/ ~c.subs[subs[j].i].hide)}} ELSE {})

\* ---- soundness of one offered candidate [value, k, id, hidden] at level c, parser state st, word w ------
\* (k = "arg" | "command" | "" for value candidates, which the property does not constrain)
AcceptsAsOption(c, st, v, id) ==
  LET lg == PA_ToLong(v) sh == PA_ToShort(v) IN
  IF IsSome(lg) /\ ~lg.v.hasValue
  THEN LET i == KeyLongIdx(c, lg.v.flag) IN i # 0 /\ c.args[i].id = id
  ELSE IF IsSome(sh)
  THEN \* a cluster: every character is a short key of the level and the last one is this argument
       LET cs == Chars(sh.v) IN
       /\ IsUtf8(sh.v) /\ cs # <<>>
       /\ \A k \in 1..Len(cs) : KeyShortIdx(c, cs[k]) # 0
       /\ c.args[KeyShortIdx(c, cs[Len(cs)])].id = id
  ELSE FALSE
CandidateSound(c, st, w, cand) ==
  CASE cand.k = "arg" ->
         /\ StartsWith(cand.value, w)
         /\ HasArg(c, cand.id)
         /\ AcceptsAsOption(c, st, cand.value, cand.id)
    [] cand.k = "command" ->
         /\ StartsWith(cand.value, w)
         /\ LET si == FindSubcommand(c, cand.value) IN si # 0 /\ SubView(c)[si].name = cand.id
         /\ PossibleSubcommand(c, cand.value, st.valid).some
    [] OTHER -> TRUE

\* hidden candidates only when nothing visible is offered; what is hidden is read off the definition:
\* a hidden argument, a hidden alias (Arg::alias / Command::alias), a hidden subcommand
DeclaredHidden(c, cand) ==
  CASE cand.k = "arg" -> HasArg(c, cand.id) /\ (ArgOf(c, cand.id).hide \/ \E i \in 1..Len(ArgOf(c, cand.id).aliases) :
                                                         /\ cand.value = DD \o ArgOf(c, cand.id).aliases[i]
                                                         /\ ArgOf(c, cand.id).aliases[i] \notin SeqToSet(ArgOf(c, cand.id).valiases))
    [] cand.k = "command" -> LET si == FindSubcommand(c, cand.value) IN
                             si # 0 /\ ~SubView(c)[si].auto /\ (c.subs[SubView(c)[si].i].hide \/ cand.value # SubView(c)[si].name)
    [] OTHER -> cand.hidden
HiddenOnlyIfNothingVisible(c, cands) ==
  (\E i \in 1..Len(cands) : ~DeclaredHidden(c, cands[i])) => \A i \in 1..Len(cands) : ~DeclaredHidden(c, cands[i])

LowIndexShape(c) == LowIndexShapeP(c)
\* ---- below the generated help subcommand -----------------------------------------------------------------------
\* `help a b <TAB>`: the words walk the command tree by subcommand *names* (the mirror keeps names and hiddenness only);
\* node = the raw definition reached, top = still at the help subcommand itself (which also offers its own `help`)
RECURSIVE MirrorAt(_, _, _)
MirrorAt(d, hw, k) ==
  IF k > Len(hw) THEN [ok |-> TRUE, d |-> d]
  ELSE IF \E i \in 1..Len(d.subs) : d.subs[i].name = hw[k]
       THEN MirrorAt(d.subs[CHOOSE i \in 1..Len(d.subs) : d.subs[i].name = hw[k]], hw, k + 1)
       ELSE [ok |-> FALSE, d |-> d]
P18Help(p, w, obs) ==
  LET m == MirrorAt(p.c, p.hw, 1) IN
  (m.ok /\ IsUtf8(w) /\ (w = <<>> \/ w[1] # 45)) =>
     LET d == m.d
         names(hid) == {d.subs[i].name : i \in {j \in 1..Len(d.subs) : d.subs[j].hide = hid /\ StartsWith(d.subs[j].name, w)}}
         own == IF p.hw = <<>> /\ StartsWith(HELP, w) THEN {HELP} ELSE {}          \* `help help`
         offered == {obs.cands[j].value : j \in {q \in 1..Len(obs.cands) : obs.cands[q].k = "command"}}
     IN /\ offered \subseteq names(FALSE) \cup names(TRUE) \cup own                 \* only subcommands of that level
        /\ names(FALSE) \subseteq offered                                          \* every visible one
        /\ (names(FALSE) \cup own # {} => offered \cap names(TRUE) = {})            \* hidden only when nothing visible matches
\* ---- C18 on one observation: obs = [panicked, err, cands] ------------------------------------------
\* reused: the Command value had already parsed the preceding words.  A parse builds lazily and marks the command built, so
\* the engine's later build no longer expands the generated help subcommand into its mirror tree (the root cause of
\* KF-C11-1): below `help` such a command has nothing to offer, and the help clause is stated for fresh commands only.
P18R(def, words, i, obs, reused) ==
  LET c0 == Build(def, NoInherit)
      p == PrefixLevel(c0, SubSeq(words, 1, i - 1), 1, 0, -1, 0)
      w == words[i]
      represented == {[k |-> obs.cands[j].k, id |-> obs.cands[j].id] : j \in 1..Len(obs.cands)}
  IN /\ ~obs.panicked
     /\ (p.help /\ ~reused /\ (\A k \in 1..(i - 1) : words[k] # <<45, 45>>) => P18Help(p, w, obs))
     /\ (NewArgMayStart(p, SubSeq(words, 1, i - 1)) =>
           /\ \A j \in 1..Len(obs.cands) : CandidateSound(p.c, p.st, w, obs.cands[j])
           /\ MustIds(p.c, p.st, w) \subseteq represented
           /\ HiddenOnlyIfNothingVisible(p.c, obs.cands))
P18(def, words, i, obs) == P18R(def, words, i, obs, FALSE)
=============================================================================
