-------------------------------- MODULE Wrap --------------------------------
(***************************************************************************)
(* clap_builder/src/output/textwrap/{mod,core,word_separators,             *)
(* wrap_algorithms}.rs and StyledStr::wrap (builder/styled_str.rs 79-108). *)
(* Text is a sequence of symbols; each symbol stands for one character (or *)
(* one complete SGR escape sequence) with a display width and a byte       *)
(* length, which is all the code looks at.                                 *)
(***************************************************************************)
EXTENDS Naturals, Integers, Sequences, FiniteSets

A  == 1   \* 'a'
B  == 2   \* 'b'
SP == 3   \* ' '
NL == 4   \* '\n'
WD == 5   \* a width-2 character (U+4E16), 3 bytes
ZW == 6   \* a zero-width character (U+200B), 3 bytes, not whitespace
E1 == 7   \* ESC [ 1 m
E0 == 8   \* ESC [ 0 m
Syms == 1..8
IsEsc(s) == s = E1 \/ s = E0
ChWidth(s) == CASE s = A -> 1 [] s = B -> 1 [] s = SP -> 1 [] s = NL -> 0 [] s = WD -> 2 [] s = ZW -> 0
                [] s = E1 -> 0 [] s = E0 -> 0
ByteLen(s) == CASE s = WD -> 3 [] s = ZW -> 3 [] s = E1 -> 4 [] s = E0 -> 4 [] OTHER -> 1
IsWs(s) == s = SP \/ s = NL          \* char::is_whitespace among our symbols
MAXW == 1000000                      \* stands for usize::MAX (term_width(0))

RECURSIVE SumBytes(_)
SumBytes(t) == IF t = <<>> THEN 0 ELSE ByteLen(Head(t)) + SumBytes(Tail(t))

\* ---- core.rs display_width: the control-sequence flag as written --------
\* NL is an ASCII control character: it raises the flag; an escape symbol ends in 'm'
\* and therefore leaves the flag lowered.
RECURSIVE DWLoop(_, _, _)
DWLoop(t, i, ctl) ==
  IF i > Len(t) THEN 0
  ELSE LET s == t[i] IN
       IF IsEsc(s) THEN DWLoop(t, i + 1, FALSE)
       ELSE IF s = NL THEN DWLoop(t, i + 1, TRUE)
       ELSE (IF ctl THEN 0 ELSE ChWidth(s)) + DWLoop(t, i + 1, ctl)
DisplayWidth(t) == DWLoop(t, 1, FALSE)

\* ---- str helpers ---------------------------------------------------------
RECURSIVE TrimEnd(_)
TrimEnd(t) == IF t # <<>> /\ IsWs(t[Len(t)]) THEN TrimEnd(SubSeq(t, 1, Len(t) - 1)) ELSE t
TrimIsEmpty(t) == \A i \in 1..Len(t) : IsWs(t[i])

\* split_inclusive('\n')
RECURSIVE SplitInclusive(_, _)
SplitInclusive(t, acc) ==
  IF t = <<>> THEN (IF acc = <<>> THEN <<>> ELSE <<acc>>)
  ELSE IF Head(t) = NL THEN <<Append(acc, NL)>> \o SplitInclusive(Tail(t), <<>>)
  ELSE SplitInclusive(Tail(t), Append(acc, Head(t)))
Lines(t) == SplitInclusive(t, <<>>)

\* ---- word_separators.rs find_words_ascii_space ---------------------------
\* loop state: start, in_whitespace, idx; emits line[start..idx] when a non-space follows a space
RECURSIVE FindWordsLoop(_, _, _, _)
FindWordsLoop(line, start, inWs, idx) ==     \* 0-based start/idx
  IF idx >= Len(line)
  THEN (IF start < Len(line) THEN <<SubSeq(line, start + 1, Len(line))>> ELSE <<>>)
  ELSE LET nextWs == line[idx + 1] = SP IN
       IF inWs /\ ~nextWs
       THEN <<SubSeq(line, start + 1, idx)>> \o FindWordsLoop(line, idx, nextWs, idx + 1)
       ELSE FindWordsLoop(line, start, nextWs, idx + 1)
FindWords(line) == FindWordsLoop(line, 0, FALSE, 0)

\* ---- wrap_algorithms.rs LineWrapper --------------------------------------
NoCarry == [set |-> FALSE, v |-> <<>>]
NewWrapper == [lw |-> 0, carry |-> NoCarry]
Reset(wr) == [lw |-> 0, carry |-> NoCarry]

InsertAt(ws, i, x) == SubSeq(ws, 1, i) \o <<x>> \o SubSeq(ws, i + 1, Len(ws))   \* Vec::insert at 0-based i

\* the while loop of LineWrapper::wrap; i is 0-based
RECURSIVE WrapLoop(_, _, _, _, _)
WrapLoop(hard, lw, carry, words, i) ==
  IF i >= Len(words) THEN <<[lw |-> lw, carry |-> carry], words>>
  ELSE LET word == words[i + 1]
           trimmed == TrimEnd(word)
           ww == DisplayWidth(trimmed)
           delta == SumBytes(word) - SumBytes(trimmed)
       IN IF i # 0 /\ hard < lw + ww
          THEN LET w1 == [words EXCEPT ![i] = TrimEnd(words[i])]       \* words[last] = trimmed (last = i-1, 1-based i)
                   w2 == InsertAt(w1, i, <<NL>>)
                   w3 == IF carry.set THEN InsertAt(w2, i + 1, carry.v) ELSE w2
                   i2 == IF carry.set THEN i + 2 ELSE i + 1
                   lw2 == IF carry.set THEN SumBytes(carry.v) ELSE 0
               IN WrapLoop(hard, lw2 + ww + delta, carry, w3, i2 + 1)
          ELSE WrapLoop(hard, lw + ww + delta, carry, words, i + 1)

LWWrap(hard, wr, words) ==
  LET carry == IF ~wr.carry.set /\ words # <<>>
               THEN (IF TrimIsEmpty(words[1]) THEN [set |-> TRUE, v |-> words[1]] ELSE [set |-> TRUE, v |-> <<>>])
               ELSE wr.carry
  IN WrapLoop(hard, wr.lw, carry, words, 0)

RECURSIVE Flat(_)
Flat(ss) == IF ss = <<>> THEN <<>> ELSE Head(ss) \o Flat(Tail(ss))

\* ---- textwrap::wrap (mod.rs) ---------------------------------------------
RECURSIVE PlainLines(_, _)
PlainLines(hard, ls) ==
  IF ls = <<>> THEN <<>>
  ELSE Flat(LWWrap(hard, NewWrapper, FindWords(Head(ls)))[2]) \o PlainLines(hard, Tail(ls))
PlainWrap(t, hard) == PlainLines(hard, Lines(t))

\* ---- StyledStr::wrap -----------------------------------------------------
\* iter_text(): maximal runs of non-escape symbols; escapes are copied through.
\* Items: <<"esc", sym>> or <<"text", run>>
RECURSIVE Segments(_, _)
Segments(t, acc) ==
  IF t = <<>> THEN (IF acc = <<>> THEN <<>> ELSE <<[esc |-> FALSE, v |-> acc]>>)
  ELSE IF IsEsc(Head(t))
       THEN (IF acc = <<>> THEN <<>> ELSE <<[esc |-> FALSE, v |-> acc]>>) \o <<[esc |-> TRUE, v |-> <<Head(t)>>]>> \o Segments(Tail(t), <<>>)
       ELSE Segments(Tail(t), Append(acc, Head(t)))

RECURSIVE StyledSegLines(_, _, _, _)
StyledSegLines(hard, wr, ls, i) ==     \* returns <<wrapper, output>>
  IF i > Len(ls) THEN <<wr, <<>>>>
  ELSE LET wr1 == IF i > 1 THEN Reset(wr) ELSE wr
           r == LWWrap(hard, wr1, FindWords(ls[i]))
           rest == StyledSegLines(hard, r[1], ls, i + 1)
       IN <<rest[1], Flat(r[2]) \o rest[2]>>

RECURSIVE StyledSegs(_, _, _)
StyledSegs(hard, wr, segs) ==
  IF segs = <<>> THEN <<>>
  ELSE LET s == Head(segs) IN
       IF s.esc THEN s.v \o StyledSegs(hard, wr, Tail(segs))
       ELSE LET r == StyledSegLines(hard, wr, Lines(s.v), 1)
            IN r[2] \o StyledSegs(hard, r[1], Tail(segs))
StyledWrap(t, hard) == TrimEnd(StyledSegs(hard, NewWrapper, Segments(t, <<>>)))

(***************************************************************************)
(* Declarative side of C20: predicates over (input, width, output) only.   *)
(***************************************************************************)
Visible(t) == SelectSeq(t, LAMBDA s : ~IsEsc(s))
NoWs(t) == SelectSeq(t, LAMBDA s : ~IsWs(s))
Escapes(t) == SelectSeq(t, LAMBDA s : IsEsc(s))

\* leading spaces of the input line that contains 1-based position i (i may be Len+1)
RECURSIVE LineStart(_, _)
LineStart(t, i) == IF i <= 1 THEN 1 ELSE IF t[i - 1] = NL THEN i ELSE LineStart(t, i - 1)
RECURSIVE SpacesFrom(_, _)
SpacesFrom(t, i) == IF i <= Len(t) /\ t[i] = SP THEN <<SP>> \o SpacesFrom(t, i + 1) ELSE <<>>
RECURSIVE WsFrom(_, _)
WsFrom(t, i) == IF i <= Len(t) /\ IsWs(t[i]) THEN <<t[i]>> \o WsFrom(t, i + 1) ELSE <<>>
LineIndent(t, i) ==
  LET ls == LineStart(t, i) sp == SpacesFrom(t, ls) IN
  \* a line made only of spaces has no "leading indent followed by a word": the wrapper never breaks it
  sp
AllSpaces(t) == \A k \in 1..Len(t) : t[k] = SP

\* There is an alignment of `in` and `out` that uses only:
\*   copy one symbol | delete a run of spaces that is followed by an inserted break |
\*   insert NL + the line's leading indent at the start of a word |
\*   (styled only) delete trailing whitespace at the very end, free choice of indent
RECURSIVE Align(_, _, _, _, _, _)
Align(in, i, out, j, del, styled) ==
  LET inEnd == i > Len(in) outEnd == j > Len(out) IN
  IF inEnd /\ outEnd THEN (~del \/ styled)
  ELSE
    \/ (~del /\ ~inEnd /\ ~outEnd /\ in[i] = out[j] /\ Align(in, i + 1, out, j + 1, FALSE, styled))
    \/ (~inEnd /\ in[i] = SP /\ Align(in, i + 1, out, j, TRUE, styled))
    \/ (styled /\ ~inEnd /\ outEnd /\ IsWs(in[i]) /\ Align(in, i + 1, out, j, TRUE, styled))
    \/ (del /\ ~outEnd /\ out[j] = NL /\ ~inEnd /\ in[i] # SP
        \* DevStyledCarryoverPersists: StyledStr::wrap does not reset the wrapper between styled
        \* segments, so the re-emitted "indent" may be the whitespace-only first word of an earlier
        \* line (even "\n"); for styled text any whitespace-only indent is therefore accepted.
        /\ IF styled
           THEN \E n \in 0..Len(WsFrom(out, j + 1)) : Align(in, i, out, j + 1 + n, FALSE, styled)
           ELSE LET ind == LineIndent(in, i) IN
                /\ j + Len(ind) <= Len(out)
                /\ SubSeq(out, j + 1, j + Len(ind)) = ind
                /\ Align(in, i, out, j + 1 + Len(ind), FALSE, styled))

ContentPreserved(in, out, styled) ==
  /\ IF styled THEN Align(Visible(in), 1, Visible(out), 1, FALSE, TRUE)
               ELSE Align(in, 1, out, 1, FALSE, FALSE)   \* plain text: escape bytes are ordinary word characters
  /\ NoWs(in) = NoWs(out)

\* plain text: every produced line, ignoring trailing whitespace, fits or is a single word (after its indent)
RECURSIVE SplitNL(_, _)
SplitNL(t, acc) ==
  IF t = <<>> THEN <<acc>>
  ELSE IF Head(t) = NL THEN <<acc>> \o SplitNL(Tail(t), <<>>) ELSE SplitNL(Tail(t), Append(acc, Head(t)))
RECURSIVE DropLeadingSpaces(_)
DropLeadingSpaces(t) == IF t # <<>> /\ Head(t) = SP THEN DropLeadingSpaces(Tail(t)) ELSE t
RECURSIVE SumWidth(_)
SumWidth(t) == IF t = <<>> THEN 0 ELSE ChWidth(Head(t)) + SumWidth(Tail(t))
SingleWord(l) == LET body == DropLeadingSpaces(TrimEnd(l)) IN \A k \in 1..Len(body) : body[k] # SP
WidthBound(out, w) ==
  \A k \in 1..Len(SplitNL(out, <<>>)) :
     LET l == SplitNL(out, <<>>)[k] IN SumWidth(TrimEnd(l)) <= w \/ SingleWord(l)

StyledIntact(in, out) == Escapes(in) = Escapes(out) /\ NoWs(in) = NoWs(out)

P20Plain(in, w, out) == ContentPreserved(in, out, FALSE) /\ WidthBound(out, w)
P20Styled(in, w, out) == ContentPreserved(in, out, TRUE) /\ StyledIntact(in, out)
=============================================================================
