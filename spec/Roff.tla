-------------------------------- MODULE Roff --------------------------------
(***************************************************************************)
(* clap_mangen (src/lib.rs, src/render.rs) on top of roff 0.2.1:           *)
(*  - how one `Roff::text` / `Roff::control` call becomes output lines     *)
(*    (escape_inline, apostrophe handling, escape_leading_cc, the          *)
(*    line-start `\&` rule, escape_spaces for control arguments);          *)
(*  - the page skeleton: the sequence of control lines `Man::render` emits *)
(*    as a function of the definition's *structure*.                       *)
(* C19: every output line that starts with `.` or `'` is one of the        *)
(* generator's own requests, in exactly the skeleton's order.              *)
(***************************************************************************)
EXTENDS Bytes

DOT == 46
APOS == 39
BSL == 92
NLC == 10
MINUS_ == 45
SPC == 32

\* ---- Roff::text with one Roman inline ---------------------------------------
RECURSIVE ReplaceAll(_, _, _)
ReplaceAll(s, from, to) ==
  LET i == Find(s, from) IN IF i < 0 THEN s ELSE Slice(s, 0, i) \o to \o ReplaceAll(From(s, i + Len(from)), from, to)
EscapeInline(t) == ReplaceAll(ReplaceAll(t, <<BSL>>, <<BSL, BSL>>), <<MINUS_>>, <<BSL, MINUS_>>)
EscapeApostrophes(t) == ReplaceAll(t, <<APOS>>, <<BSL, 42, 40, 65, 113>>)          \* \*(Aq
EscapeLeadingCc(t) == ReplaceAll(ReplaceAll(t, <<NLC, DOT>>, <<NLC, BSL, 38, DOT>>), <<NLC, APOS>>, <<NLC, BSL, 38, APOS>>)
StartsWithCc(t) == t # <<>> /\ (t[1] = DOT \/ t[1] = APOS)
RomanText(t) ==   \* the bytes written for roff.text([roman(t)]) before the final newline
  LET e == EscapeLeadingCc(EscapeApostrophes(EscapeInline(t))) IN
  IF StartsWithCc(e) THEN <<BSL, 38>> \o e ELSE e
TextLines(t) == Split(RomanText(t), <<NLC>>)

\* ---- Roff::control argument --------------------------------------------------
EscapeSpaces(w) == IF Contains(w, <<SPC>>) THEN <<34>> \o w \o <<34>> ELSE w
\* the output lines of `.NAME arg`
ControlLines1(name, arg) == Split(<<DOT>> \o name \o <<SPC>> \o EscapeSpaces(arg), <<NLC>>)
\* clap_mangen keeps control-line arguments on one line (newlines become spaces) - see the fix: commit
OneLine(w) == ReplaceAll(w, <<NLC>>, <<SPC>>)

IsControlLine(l) == l # <<>> /\ (l[1] = DOT \/ l[1] = APOS)
\* the request name of a control line: bytes after the dot up to the first space
RequestName(l) == LET r == Tail(l) i == Find(r, <<SPC>>) IN IF i < 0 THEN r ELSE Slice(r, 0, i)

\* ---- text never becomes a request -------------------------------------------------
TextStaysText(t) == \A i \in 1..Len(TextLines(t)) : ~IsControlLine(TextLines(t)[i])
ControlArgStaysOneLine(name, arg) == Len(ControlLines1(name, OneLine(arg))) = 1

(***************************************************************************)
(* The page skeleton of Man::render (lib.rs 151-180 and the section        *)
(* renderers) for a man-definition md:                                     *)
(*  [name, about, after_help, author, version, no_help_flag,               *)
(*   args: Seq([id, short, long, hide, help, heading, takes_value,         *)
(*              pvs: Seq([name, hide, help]), hide_pv, env]),             *)
(*   subs: Seq([name, hide, about])]                                       *)
(* Text values are byte strings; <<>> means "not set".                     *)
(***************************************************************************)
RustLines(t) == LET p == Split(t, <<NLC>>) IN IF p[Len(p)] = <<>> THEN SubSeq(p, 1, Len(p) - 1) ELSE p
IsBlank(l) == \A i \in 1..Len(l) : l[i] = SPC \/ l[i] = 9

HelpArgM == [id |-> <<104,101,108,112>>, short |-> <<104>>, long |-> <<104,101,108,112>>, hide |-> FALSE, help |-> <<80>>, heading |-> <<>>,
             takes_value |-> FALSE, pvs |-> <<>>, hide_pv |-> FALSE, env |-> <<>>]
VersionArgM == [HelpArgM EXCEPT !.id = <<118>>, !.short = <<86>>, !.long = <<118,101,114,115,105,111,110>>]
BuiltArgs(md) == md.args \o (IF md.no_help_flag THEN <<>> ELSE <<HelpArgM>>) \o (IF md.version # <<>> THEN <<VersionArgM>> ELSE <<>>)
HelpSubM == [name |-> <<104,101,108,112>>, hide |-> FALSE, about |-> <<80>>]
BuiltSubs(md) == IF md.subs = <<>> THEN <<>> ELSE md.subs \o <<HelpSubM>>

IsPositionalM(a) == a.short = <<>> /\ a.long = <<>>
VisiblePvs(a) == SelectSeq(a.pvs, LAMBDA p : ~p.hide)
PossibleBlock(a, helpWritten) ==
  IF a.hide_pv \/ VisiblePvs(a) = <<>> THEN <<>>
  ELSE (IF helpWritten THEN <<"br">> ELSE <<>>)
       \o (IF \E i \in 1..Len(VisiblePvs(a)) : VisiblePvs(a)[i].help # <<>>
           THEN <<"br", "RS">> \o [i \in 1..Len(VisiblePvs(a)) |-> "IP"] \o <<"RE">>
           ELSE <<"br">>)
EnvBlock(a) == IF a.env # <<>> THEN <<"RS", "RE">> ELSE <<>>
ArgBlock(a) == IF IsPositionalM(a) THEN <<"TP">> \o EnvBlock(a) \o PossibleBlock(a, a.help # <<>>)
               ELSE <<"TP">> \o PossibleBlock(a, a.help # <<>>) \o EnvBlock(a)
RECURSIVE Blocks(_)
Blocks(args) == IF args = <<>> THEN <<>> ELSE ArgBlock(Head(args)) \o Blocks(Tail(args))
OptionsOf(args) == Blocks(SelectSeq(args, LAMBDA a : ~IsPositionalM(a))) \o Blocks(SelectSeq(args, LAMBDA a : IsPositionalM(a)))
RECURSIVE Headings(_, _)
Headings(args, seen) == IF args = <<>> THEN <<>>
                        ELSE IF Head(args).heading # <<>> /\ Head(args).heading \notin seen
                        THEN <<Head(args).heading>> \o Headings(Tail(args), seen \cup {Head(args).heading}) ELSE Headings(Tail(args), seen)
OptionSections(md) ==
  LET vis == SelectSeq(BuiltArgs(md), LAMBDA a : ~a.hide)
      plain == SelectSeq(vis, LAMBDA a : a.heading = <<>>)
      hs == Headings(vis, {})
  IN IF vis = <<>> THEN <<>>
     ELSE (IF plain # <<>> THEN <<"SH">> \o OptionsOf(plain) ELSE <<>>)
          \o Concat([i \in 1..Len(hs) |-> <<"SH">> \o OptionsOf(SelectSeq(vis, LAMBDA a : a.heading = hs[i]))])
SubSection(md) ==
  LET vis == SelectSeq(BuiltSubs(md), LAMBDA s : ~s.hide) IN
  IF vis = <<>> THEN <<>> ELSE <<"SH">> \o [i \in 1..Len(vis) |-> "TP"]
DescBlock(md) == LET ls == IF md.about = <<>> THEN <<>> ELSE RustLines(md.about) IN
                 SelectSeq([i \in 1..Len(ls) |-> IF IsBlank(ls[i]) THEN "PP" ELSE ""], LAMBDA x : x # "")
Skeleton(md) ==
  <<"ie", "el", "TH", "SH", "SH", "SH">> \o DescBlock(md) \o OptionSections(md) \o SubSection(md)
  \o (IF md.after_help # <<>> THEN <<"SH">> ELSE <<>>)
  \o (IF md.version # <<>> THEN <<"SH">> ELSE <<>>)
  \o (IF md.author # <<>> THEN <<"SH">> ELSE <<>>)

\* what the page must and must not name
\* how the page names an argument: its long flag, else (positional) its id, else its escaped short flag `\-s`
NameToken(a) == IF a.long # <<>> THEN a.long ELSE IF IsPositionalM(a) THEN a.id ELSE <<BSL, MINUS_>> \o a.short
MustName(md) == {NameToken(md.args[i]) : i \in {j \in 1..Len(md.args) : ~md.args[j].hide}} \cup {md.subs[i].name : i \in {j \in 1..Len(md.subs) : ~md.subs[j].hide}}
\* (a hidden positional still shows in the SYNOPSIS line: synopsis() does not filter positionals - not claimed)
MustNotName(md) == {NameToken(md.args[i]) : i \in {j \in 1..Len(md.args) : md.args[j].hide /\ ~IsPositionalM(md.args[j]) /\ md.args[j].long # <<>>}}
                   \cup {md.subs[i].name : i \in {j \in 1..Len(md.subs) : md.subs[j].hide}}
                   \cup UNION {{md.args[i].pvs[k].name : k \in {q \in 1..Len(md.args[i].pvs) : md.args[i].pvs[q].hide}} : i \in 1..Len(md.args)}

\* every text slot of the definition with where it goes
TextSlots(md) == <<md.about, md.after_help, md.author>> \o [i \in 1..Len(md.args) |-> md.args[i].help]
                 \o [i \in 1..Len(md.subs) |-> md.subs[i].about]
ControlArgSlots(md) == <<md.version, md.ov_title, md.ov_section, md.ov_date, md.ov_source, md.ov_manual>> \o [i \in 1..Len(md.args) |-> md.args[i].heading]

\* C19 on an observed page: obs = [panicked, controls: Seq(request names as strings), names_present: set of ids found]
P19(md, obs) ==
  /\ ~obs.panicked
  /\ obs.deterministic
  /\ obs.controls = Skeleton(md)
  /\ MustName(md) \subseteq {obs.present[i] : i \in 1..Len(obs.present)}
  /\ MustNotName(md) \cap {obs.present[i] : i \in 1..Len(obs.present)} = {}
=============================================================================
