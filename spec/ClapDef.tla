------------------------------ MODULE ClapDef ------------------------------
(***************************************************************************)
(* Command definitions (the shared JSON vocabulary of lib/families.py) and *)
(* what `Command::_build_self` makes of them                               *)
(* (clap_builder/src/builder/command.rs 4313-4409, 4650-4791; arg.rs       *)
(* `Arg::_build` 4504-4551; mkeymap.rs key order).                          *)
(***************************************************************************)
EXTENDS Values, TLC

INF == 1000000

GlobalSettingNames == {"ignore_errors", "args_override_self", "dont_delimit_trailing_values", "infer_long_args",
                       "infer_subcommands", "disable_help_flag", "disable_version_flag", "disable_help_subcommand",
                       "propagate_version"}

NoInherit == [gs |-> [n \in GlobalSettingNames |-> FALSE], gargs |-> <<>>, version |-> FALSE]

StringVP == [k |-> "string", lo |-> 0, hi |-> 0, pvs |-> <<>>, pv_hide |-> <<>>, pv_help |-> <<>>, pv_aliases |-> <<>>]
BoolVP == [k |-> "bool", lo |-> 0, hi |-> 0, pvs |-> <<>>, pv_hide |-> <<>>, pv_help |-> <<>>, pv_aliases |-> <<>>]
CountVP == [k |-> "u8", lo |-> 0, hi |-> 255, pvs |-> <<>>, pv_hide |-> <<>>, pv_help |-> <<>>, pv_aliases |-> <<>>]

\* ---- Arg::_build --------------------------------------------------------
IsPositionalDef(a) == a.short = <<>> /\ a.long = <<>>

BuildAction(a) ==
  IF a.action # "" THEN a.action
  ELSE IF a.nset /\ a.nmin = 0 /\ a.nmax = 0 THEN "SetTrue"
  ELSE IF IsPositionalDef(a) /\ a.nset /\ a.nmax >= INF THEN "Append"
  ELSE "Set"

ActionDefault(act) == CASE act = "SetTrue" -> <<<<102,97,108,115,101>>>>   \* "false"
                        [] act = "SetFalse" -> <<<<116,114,117,101>>>>       \* "true"
                        [] act = "Count" -> <<<<48>>>>                        \* "0"
                        [] OTHER -> <<>>
ActionMissing(act) == CASE act = "SetTrue" -> <<<<116,114,117,101>>>>
                        [] act = "SetFalse" -> <<<<102,97,108,115,101>>>>
                        [] OTHER -> <<>>
ActionTakesValues(act) == act \in {"Set", "Append"}

\* a built argument; `idx` (positional index) is filled in by BuildArgs
BuildArg(a) ==
  LET act == BuildAction(a)
      \* more than one value name fixes the number of values unless num_args was given (arg.rs 4544-4550)
      nmin == IF a.nset THEN a.nmin ELSE IF a.valnames > 1 THEN a.valnames ELSE IF ActionTakesValues(act) THEN 1 ELSE 0
      nmax == IF a.nset THEN a.nmax ELSE IF a.valnames > 1 THEN a.valnames ELSE IF ActionTakesValues(act) THEN 1 ELSE 0
      vp == IF a.vp.k # "string" THEN a.vp
            ELSE IF act \in {"SetTrue", "SetFalse"} THEN BoolVP
            ELSE IF act = "Count" THEN CountVP ELSE StringVP
  IN [id |-> a.id, idb |-> a.idb, short |-> a.short, long |-> a.long, aliases |-> a.aliases, valiases |-> a.valiases, saliases |-> a.saliases, heading |-> a.heading, positional |-> IsPositionalDef(a),
      idx |-> a.index, action |-> act, nmin |-> nmin, nmax |-> nmax,
      required |-> a.required, global |-> a.global, last |-> a.last, tva |-> a.tva, hyphen |-> a.hyphen,
      negnum |-> a.negnum, req_eq |-> a.req_eq, delim |-> a.delim, term |-> a.term,
      defaults |-> IF a.defaults # <<>> THEN a.defaults ELSE ActionDefault(act),
      missing |-> IF a.missing # <<>> THEN a.missing ELSE ActionMissing(act),
      default_ifs |-> a.default_ifs, has_env |-> a.has_env, env |-> a.env,
      exclusive |-> a.exclusive, conflicts |-> a.conflicts, overrides |-> a.overrides,
      \* Arg::requires: (IsPresent, id); Arg::requires_ifs: (Equals(val), id)
      requires |-> [i \in 1..Len(a.requires) |-> [eq |-> FALSE, val |-> <<>>, id |-> a.requires[i]]]
                   \o [i \in 1..Len(a.requires_ifs) |-> [eq |-> TRUE, val |-> a.requires_ifs[i].val, id |-> a.requires_ifs[i].id]],
      r_ifs |-> a.req_if_eq, r_ifs_all |-> a.req_if_eq_all, r_unless |-> a.req_unless, r_unless_all |-> a.req_unless_all,
      ignore_case |-> a.ignore_case, vp |-> vp, hide |-> a.hide,
      hide_short |-> a.hide_short, hide_long |-> a.hide_long, nlh |-> a.nlh, help |-> a.help, hide_pv |-> a.hide_pv]

HelpArg == [id |-> "help", idb |-> <<104,101,108,112>>, short |-> <<104>>, long |-> <<104,101,108,112>>, aliases |-> <<>>, valiases |-> <<>>, saliases |-> <<>>, heading |-> "", positional |-> FALSE,
            idx |-> 0, action |-> "Help", nmin |-> 0, nmax |-> 0, required |-> FALSE, global |-> FALSE, last |-> FALSE,
            tva |-> FALSE, hyphen |-> FALSE, negnum |-> FALSE, req_eq |-> FALSE, delim |-> 0, term |-> <<>>,
            defaults |-> <<>>, missing |-> <<>>, default_ifs |-> <<>>, has_env |-> FALSE, env |-> <<>>,
            exclusive |-> FALSE, conflicts |-> <<>>, overrides |-> <<>>, requires |-> <<>>, r_ifs |-> <<>>,
            r_ifs_all |-> <<>>, r_unless |-> <<>>, r_unless_all |-> <<>>, ignore_case |-> FALSE, vp |-> StringVP, hide |-> FALSE,
            hide_short |-> FALSE, hide_long |-> FALSE, nlh |-> FALSE, help |-> <<80,114,105,110,116,32,104,101,108,112>>, hide_pv |-> FALSE]
VersionArg == [HelpArg EXCEPT !.id = "version", !.idb = <<118,101,114,115,105,111,110>>, !.short = <<86>>, !.long = <<118,101,114,115,105,111,110>>, !.action = "Version"]

\* positional indices: explicit index kept, the others numbered 1.. in definition order (command.rs 4346-4368)
RECURSIVE AssignIdx(_, _)
AssignIdx(args, counter) ==
  IF args = <<>> THEN <<>>
  ELSE LET a == Head(args) IN
       IF a.positional /\ a.idx = 0
       THEN <<[a EXCEPT !.idx = counter]>> \o AssignIdx(Tail(args), counter + 1)
       ELSE <<a>> \o AssignIdx(Tail(args), counter)

HELP == <<104,101,108,112>>
\* the auto-generated `help` subcommand as the parser sees it (expand_help_tree = false)
HelpSubDef == [name |-> HELP, auto_help |-> TRUE]

\* ---- Command::_build_self ----------------------------------------------
\* d: definition; inh: what the parent propagated (global settings, global args, version)
Build(d, inh) ==
  LET S0(n) == IF n \in GlobalSettingNames THEN d.s[n] \/ inh.gs[n] ELSE d.s[n]
      \* a multicall command: SubcommandRequired, DisableHelpFlag and DisableVersionFlag are set on its own settings
      \* (not on the global ones: children are unaffected)
      S(n) == IF d.s.multicall /\ n \in {"subcommand_required", "disable_help_flag", "disable_version_flag"} THEN TRUE ELSE S0(n)
      hasVersion == d.version \/ inh.version
      noSubs == d.subs = <<>>
      disHelpSub == S("disable_help_subcommand") \/ noSubs
      own == [i \in 1..Len(d.args) |-> BuildArg(d.args[i])]
      ownIds == {own[i].id : i \in 1..Len(own)}
      \* _propagate_global_args of the parent pushed its globals unless the id already exists
      inherited == SelectSeq(inh.gargs, LAMBDA g : g.id \notin ownIds)
      helpArgs == IF S("disable_help_flag") THEN <<>> ELSE <<HelpArg>>
      verArgs == IF S("disable_version_flag") \/ ~hasVersion THEN <<>> ELSE <<VersionArg>>
      args0 == AssignIdx(own \o inherited \o helpArgs \o verArgs, 1)
      \* the command-level allow_hyphen_values / allow_negative_numbers / trailing_var_arg are copied onto the arguments:
      \* the first two onto every argument that takes values, the last onto the positional with the highest index
      highestIdx == LET idxs == {args0[i].idx : i \in {j \in 1..Len(args0) : args0[j].positional}} \cup {0} IN CHOOSE h \in idxs : \A k \in idxs : k <= h
      args == [i \in 1..Len(args0) |->
                 [args0[i] EXCEPT !.hyphen = @ \/ (d.s.allow_hyphen_values /\ args0[i].nmax # 0),
                                  !.negnum = @ \/ (d.s.allow_negative_numbers /\ args0[i].nmax # 0),
                                  !.tva = @ \/ (d.s.trailing_var_arg /\ args0[i].positional /\ args0[i].idx = highestIdx)]]
  IN [name |-> d.name, aliases |-> d.aliases, short_flag |-> d.short_flag, long_flag |-> d.long_flag,
      long_flag_aliases |-> d.long_flag_aliases, short_flag_aliases |-> d.short_flag_aliases, hide |-> d.hide, about |-> d.about,
      s |-> [n \in DOMAIN d.s |-> S(n)] @@ [eff_disable_help_subcommand |-> disHelpSub],
      gs |-> [n \in GlobalSettingNames |-> S0(n)],
      hasVersion |-> hasVersion,
      args |-> args, groups |-> d.groups,
      \* subcommand definitions stay unbuilt until dispatched (Command::_build_subcommand)
      subs |-> d.subs, autoHelpSub |-> ~disHelpSub,
      \* what _propagate / _propagate_global_args hand to every child
      childInh |-> [gs |-> [n \in GlobalSettingNames |-> S0(n)],
                    gargs |-> SelectSeq(args, LAMBDA a : a.global),
                    version |-> S("propagate_version") /\ hasVersion]]

Set(c, n) == c.s[n]

\* ---- lookups on a built command ------------------------------------------
ArgIds(c) == {c.args[i].id : i \in 1..Len(c.args)}
HasArg(c, id) == id \in ArgIds(c)
ArgOf(c, id) == c.args[CHOOSE i \in 1..Len(c.args) : c.args[i].id = id]
GroupIds(c) == {c.groups[i].id : i \in 1..Len(c.groups)}
HasGroup(c, id) == id \in GroupIds(c)
GroupOf(c, id) == c.groups[CHOOSE i \in 1..Len(c.groups) : c.groups[i].id = id]
\* groups_for_arg: in group definition order
GroupsForArg(c, id) == SelectSeq(c.groups, LAMBDA g : \E i \in 1..Len(g.args) : g.args[i] = id)

SeqToSet(s) == {s[i] : i \in 1..Len(s)}
FirstIdx(s, P(_)) == IF \E i \in 1..Len(s) : P(s[i]) THEN CHOOSE i \in 1..Len(s) : P(s[i]) /\ \A j \in 1..(i - 1) : ~P(s[j]) ELSE 0

\* MKeyMap::get: first argument (definition order) carrying the key
KeyLongIdx(c, name) == FirstIdx(c.args, LAMBDA a : ~a.positional /\ ((a.long = name /\ a.long # <<>>) \/ name \in SeqToSet(a.aliases)))
KeyShortIdx(c, ch) == FirstIdx(c.args, LAMBDA a : ~a.positional /\ ((a.short = ch /\ a.short # <<>>) \/ ch \in SeqToSet(a.saliases)))
KeyPosIdx(c, n) == FirstIdx(c.args, LAMBDA a : a.positional /\ a.idx = n)
ContainsShort(c, ch) == KeyShortIdx(c, ch) # 0

Positionals(c) == SelectSeq(c.args, LAMBDA a : a.positional)
HasPositionals(c) == Positionals(c) # <<>>
PositionalCount(c) == Len(Positionals(c))
\* every subcommand as [name, aliases, short_flag, long_flag], the auto help subcommand last
SubView(c) == [i \in 1..Len(c.subs) |-> [name |-> c.subs[i].name, aliases |-> c.subs[i].aliases,
                                          short_flag |-> c.subs[i].short_flag, long_flag |-> c.subs[i].long_flag,
                                          lfa |-> c.subs[i].long_flag_aliases, sfa |-> c.subs[i].short_flag_aliases, auto |-> FALSE, i |-> i]]
              \o (IF c.autoHelpSub THEN <<[name |-> HELP, aliases |-> <<>>, short_flag |-> <<>>, long_flag |-> <<>>, lfa |-> <<>>, sfa |-> <<>>, auto |-> TRUE, i |-> 0]>> ELSE <<>>)
HasSubcommands(c) == SubView(c) # <<>>

\* ArgAction / ValueRange helpers (range.rs)
TakesValue(a) == a.nmax # 0
IsMultipleValues(a) == a.nmin # a.nmax \/ a.nmin > 1
IsMultiple(a) == IsMultipleValues(a) \/ a.action = "Append"
=============================================================================
