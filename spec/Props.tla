-------------------------------- MODULE Props -------------------------------
(***************************************************************************)
(* The parser-core properties C01-C03, C05-C07, C09, C10 stated as         *)
(* predicates over an observation `obs` (what a caller of the public API   *)
(* sees) of parsing `argv` against definition `def`.  They are written     *)
(* from the definition, not by re-running the algorithm; where a property  *)
(* is about attribution (which token was what) the specification's own     *)
(* ledger is the documented grammar's answer.                              *)
(* The same predicates are TLC invariants on the model's observation       *)
(* (mc/MC_Parse) and the verdict on the implementation's observation       *)
(* (trace/Trace_Parse).                                                    *)
(***************************************************************************)
EXTENDS Parser

\* ---- helpers over an observed chain ------------------------------------
EHas(E, id) == \E i \in 1..Len(E.args) : E.args[i].id = id
EGet(E, id) == E.args[CHOOSE i \in 1..Len(E.args) : E.args[i].id = id]
EVals(E, id) == Concat(EGet(E, id).occ)
ExplicitSrc(s) == s = "cli" \/ s = "env"
PresentArgs(c, E) == {E.args[i].id : i \in {j \in 1..Len(E.args) : ExplicitSrc(E.args[j].src) /\ HasArg(c, E.args[j].id)}}

EHasX(E) == \E k \in 1..Len(E.args) : E.args[k].id = ""     \* the matches of an external subcommand
\* the built command of every level of an observed chain (stops at an external subcommand)
RECURSIVE CmdChain(_, _, _)
CmdChain(c, chain, i) ==
  IF i > Len(chain) THEN <<>>
  ELSE <<c>> \o (LET si == IF chain[i].has_sub THEN FindSubcommand(c, chain[i].sub) ELSE 0 IN
                 IF si # 0 /\ ~SubView(c)[si].auto /\ i < Len(chain) /\ ~EHasX(chain[i + 1]) THEN CmdChain(Build(c.subs[SubView(c)[si].i], c.childInh), chain, i + 1) ELSE <<>>)

\* ---- C01 ------------------------------------------------------------------
P01(def, obs, rendered) ==
  /\ obs.outcome \in {"Ok", "Err"}
  /\ (obs.outcome = "Err" => rendered)
  /\ (def.s.ignore_errors => (obs.outcome = "Ok" \/ obs.kind \in {"DisplayHelp", "DisplayVersion"}))

\* ---- C03: declared relations, from the definition only ------------------------
GroupMembers(c, g) == ArgsInGroup(c, g)
\* everything x is declared to conflict with (argument or group ids), either way round
DeclConflicts(c, x) ==
  LET own == IF HasArg(c, x) THEN SeqToSet(ArgOf(c, x).conflicts) ELSE IF HasGroup(c, x) THEN SeqToSet(GroupOf(c, x).conflicts) ELSE {}
      rev == {c.args[i].id : i \in {j \in 1..Len(c.args) : x \in SeqToSet(c.args[j].conflicts)}}
             \cup {c.groups[i].id : i \in {j \in 1..Len(c.groups) : x \in SeqToSet(c.groups[j].conflicts)}}
  IN own \cup rev
\* is something that conflicts with x (or with a group x belongs to) explicitly present, other than x itself
RECURSIVE Expand(_, _)
Expand(c, ids) == UNION {IF HasArg(c, y) THEN {y} ELSE IF HasGroup(c, y) THEN GroupMembers(c, y) ELSE {} : y \in ids}
GroupsOf(c, x) == {c.groups[i].id : i \in {j \in 1..Len(c.groups) : x \in SeqToSet(c.groups[j].args)}}
ConflictersOf(c, x) == Expand(c, DeclConflicts(c, x) \cup UNION {DeclConflicts(c, g) : g \in GroupsOf(c, x)})
                       \cup UNION {GroupMembers(c, g) \ {x} : g \in {h \in GroupsOf(c, x) : ~GroupOf(c, h).multiple}}
NoConflict(c, P) == \A a \in P : (ConflictersOf(c, a) \ {a}) \cap P = {}
ExclusiveAlone(c, P) == \A a \in P : ArgOf(c, a).exclusive => P = {a}
GroupAtMostOne(c, P) == \A i \in 1..Len(c.groups) : ~c.groups[i].multiple => Cardinality(SeqToSet(c.groups[i].args) \cap P) <= 1

\* clap treats "overrides" as a conflict when deciding whether a missing requirement is excused
OverridersOf(c, x) == {c.args[i].id : i \in {j \in 1..Len(c.args) : x \in SeqToSet(c.args[j].overrides)}}
                      \cup (IF HasArg(c, x) THEN SeqToSet(ArgOf(c, x).overrides) ELSE {})
Excused(c, P, r, hasSub) ==
  \/ \E a \in P : ArgOf(c, a).exclusive
  \/ (Set(c, "subcommand_negates_reqs") /\ hasSub)
  \/ LET targets == IF HasArg(c, r) THEN {r} ELSE GroupMembers(c, r) \cup {r} IN
     \E t \in targets : ((ConflictersOf(c, t) \cup OverridersOf(c, t)) \ {t}) \cap P # {}
Satisfied(c, P, r) == IF HasArg(c, r) THEN r \in P ELSE GroupMembers(c, r) \cap P # {}

ValueHolds(E, id, eq, val, ic) ==
  EHas(E, id) /\ ExplicitSrc(EGet(E, id).src) /\
  (eq => \E k \in 1..Len(EVals(E, id)) : IF ic THEN LowerAscii(EVals(E, id)[k]) = LowerAscii(val) ELSE EVals(E, id)[k] = val)
RequiredNow(c, E, P) ==
  LET static == {c.args[i].id : i \in {j \in 1..Len(c.args) : c.args[j].required}}
      reqGroups == {c.groups[i].id : i \in {j \in 1..Len(c.groups) : c.groups[j].required}}
      groupReqs == UNION {SeqToSet(GroupOf(c, g).requires) : g \in reqGroups \cup {h \in GroupIds(c) : GroupMembers(c, h) \cap P # {}}}
      argReqs == UNION {{ArgOf(c, a).requires[i].id : i \in {j \in 1..Len(ArgOf(c, a).requires) :
                            ValueHolds(E, a, ArgOf(c, a).requires[j].eq, ArgOf(c, a).requires[j].val, ArgOf(c, a).ignore_case)}} : a \in P}
      ic(id) == HasArg(c, id) /\ ArgOf(c, id).ignore_case
      condReqs == {c.args[i].id : i \in {j \in 1..Len(c.args) :
                     LET a == c.args[j] IN
                     \/ \E k \in 1..Len(a.r_ifs) : ValueHolds(E, a.r_ifs[k].id, TRUE, a.r_ifs[k].val, ic(a.r_ifs[k].id))
                     \/ (a.r_ifs_all # <<>> /\ \A k \in 1..Len(a.r_ifs_all) : ValueHolds(E, a.r_ifs_all[k].id, TRUE, a.r_ifs_all[k].val, ic(a.r_ifs_all[k].id)))
                     \/ ((a.r_unless # <<>> \/ a.r_unless_all # <<>>)
                          /\ ~(\E k \in 1..Len(a.r_unless) : ValueHolds(E, a.r_unless[k], FALSE, <<>>, FALSE))
                          /\ (a.r_unless_all = <<>> \/ ~(\A k \in 1..Len(a.r_unless_all) : ValueHolds(E, a.r_unless_all[k], FALSE, <<>>, FALSE))))}}
  IN static \cup reqGroups \cup groupReqs \cup argReqs \cup condReqs
RequiredSatisfied(c, E, P) == \A r \in RequiredNow(c, E, P) : Satisfied(c, P, r) \/ Excused(c, P, r, E.has_sub)

P03Level(c, E) ==
  LET P == PresentArgs(c, E) IN
  NoConflict(c, P) /\ ExclusiveAlone(c, P) /\ GroupAtMostOne(c, P) /\ RequiredSatisfied(c, E, P)
P03(def, obs) ==
  (obs.outcome = "Ok" /\ ~def.s.ignore_errors) =>
     LET cs == CmdChain(Build(def, NoInherit), obs.chain, 1) IN \A i \in 1..Len(cs) : P03Level(cs[i], obs.chain[i])

\* ---- C06: origin of values ------------------------------------------------------
SplitDelim(a, vals) == IF a.delim = 0 THEN vals ELSE Concat([i \in 1..Len(vals) |-> Split(vals[i], Utf8Enc(a.delim))])
ArgPos(c, id) == FirstIdx(c.args, LAMBDA x : x.id = id)
\* the first conditional default whose condition holds; conditions see explicit matches and the
\* defaults of arguments defined earlier (defaults are applied in definition order)
CondRule(c, E, a) ==
  FirstIdx(a.default_ifs, LAMBDA d :
     /\ EHas(E, d.id)
     /\ (EGet(E, d.id).src # "def" \/ ArgPos(c, d.id) < ArgPos(c, a.id))
     /\ (d.eq => \E k \in 1..Len(EVals(E, d.id)) : EVals(E, d.id)[k] = d.val))
ExpectedDefault(c, E, a) ==    \* <<>> when no default applies
  LET r == CondRule(c, E, a) IN
  IF r # 0 THEN (IF a.default_ifs[r].has_def THEN SplitDelim(a, <<a.default_ifs[r].def>>) ELSE <<>>)
  ELSE SplitDelim(a, a.defaults)
EnvAccepted(a) == \A k \in 1..Len(SplitDelim(a, <<a.env>>)) : VPCheck(a, SplitDelim(a, <<a.env>>)[k]) = ""
\* lenient = under ignore_errors: matches may be partial (an argument may be missing) and an environment value the
\* value parser rejects is skipped, but the order command line > environment > default still holds
P06Level(c, E, lenient) ==
  \A i \in 1..Len(c.args) :
    LET a == c.args[i] IN
    a.action \notin {"Help", "Version"} =>
      IF EHas(E, a.id)
      THEN LET e == EGet(E, a.id) IN
           CASE e.src = "cli" -> TRUE
             \* (a rejected environment value leaves an empty env-sourced entry behind when errors are ignored)
             [] e.src = "env" -> a.has_env /\ (Concat(e.occ) = SplitDelim(a, <<a.env>>) \/ (lenient /\ ~EnvAccepted(a)))
             [] e.src = "def" -> (~a.has_env \/ (lenient /\ ~EnvAccepted(a)))
                                 /\ (lenient \/ (Concat(e.occ) = ExpectedDefault(c, E, a) /\ ExpectedDefault(c, E, a) # <<>>))
             [] OTHER -> FALSE
      ELSE lenient \/ (~a.has_env /\ ExpectedDefault(c, E, a) = <<>>)
\* "the command line if it was supplied there": which arguments the command line supplies (after overrides have removed what
\* they remove) is the grammar's call; at every level the set of command-line-sourced arguments is the grammar's
OriginCli(obs, mobs) ==
  (mobs.outcome = "Ok" /\ Len(mobs.chain) = Len(obs.chain)) =>
     \A i \in 1..Len(obs.chain) :
        {obs.chain[i].args[k].id : k \in {j \in 1..Len(obs.chain[i].args) : obs.chain[i].args[j].src = "cli"}}
          = {mobs.chain[i].args[k].id : k \in {j \in 1..Len(mobs.chain[i].args) : mobs.chain[i].args[j].src = "cli"}}
P06(def, obs, mobs) ==
  obs.outcome = "Ok" =>
     LET cs == CmdChain(Build(def, NoInherit), obs.chain, 1) IN
     /\ (~def.s.ignore_errors => OriginCli(obs, mobs))
     \* globals copied between levels are judged by C09
     /\ \A i \in 1..Len(cs) :
        /\ P06Level([cs[i] EXCEPT !.args = SelectSeq(@, LAMBDA a : ~a.global)], obs.chain[i], def.s.ignore_errors)
        \* only *defaults* are invisible to conflicts / requirements / presence: an environment value is an explicit
        \* origin, so with one present the level's relations (through its groups too) are enforced as for the command line
        /\ (~def.s.ignore_errors /\ \E k \in 1..Len(obs.chain[i].args) : obs.chain[i].args[k].src = "env") => P03Level(cs[i], obs.chain[i])

\* ---- C07: occurrences combine by action (a fold over the ledger) ---------------------
OccOf(st, id) == IF \E i \in 1..Len(st) : st[i].id = id THEN st[CHOOSE i \in 1..Len(st) : st[i].id = id].occ ELSE <<>>
DropIds(st, ids) == SelectSeq(st, LAMBDA x : x.id \notin ids)
FoldStep(c, st, o) ==
  LET a == ArgOf(c, o.id)
      gone == SeqToSet(a.overrides) \cup {x \in {st[i].id : i \in 1..Len(st)} : HasArg(c, x) /\ a.id \in SeqToSet(ArgOf(c, x).overrides)}
      prev == OccOf(st, a.id)
      base == DropIds(st, (gone \ {a.id}) \cup {a.id})
      kept == IF a.id \in gone THEN <<>> ELSE prev
      \* Count reads its previous value before anything is removed: self-override does not reset it
      n == IF prev = <<>> \/ prev[Len(prev)] = <<>> THEN 0 ELSE DecVal(prev[Len(prev)][1])
      new == CASE a.action = "Append" -> Append(kept, o.vals)
               [] a.action = "Count" -> IF o.vals = <<>> THEN <<<<DecStr(IF n >= 255 THEN 255 ELSE n + 1)>>>> ELSE <<o.vals>>
               [] a.action = "SetTrue" -> <<IF o.vals = <<>> THEN <<BoolStr(TRUE)>> ELSE o.vals>>
               [] a.action = "SetFalse" -> <<IF o.vals = <<>> THEN <<BoolStr(FALSE)>> ELSE o.vals>>
               [] OTHER -> <<o.vals>>
  IN Append(base, [id |-> a.id, occ |-> new])
RECURSIVE Fold(_, _, _, _)
Fold(c, st, led, i) ==
  IF i > Len(led) THEN st
  ELSE IF led[i].k = "occ" /\ HasArg(c, led[i].id) /\ ArgOf(c, led[i].id).action \notin {"Help", "Version"}
       THEN Fold(c, FoldStep(c, st, led[i]), led, i + 1) ELSE Fold(c, st, led, i + 1)
P07Level(c, E, led) ==
  LET want == Fold(c, <<>>, led, 1) IN
  /\ \A i \in 1..Len(want) : EHas(E, want[i].id) /\ EGet(E, want[i].id).src = "cli" /\ EGet(E, want[i].id).occ = want[i].occ
  /\ \A i \in 1..Len(E.args) : (E.args[i].src = "cli" /\ HasArg(c, E.args[i].id)) => \E j \in 1..Len(want) : want[j].id = E.args[i].id

\* the model's ledgers per level along its own chain
RECURSIVE LedChain(_)
LedChain(lv) == <<lv.led>> \o (IF lv.sub.set /\ ~lv.sub.ext THEN LedChain(lv.sub.lv) ELSE <<>>)
RECURSIVE SubChain(_)
SubChain(lv) == IF lv.sub.set THEN <<lv.sub.name>> \o (IF lv.sub.ext THEN <<>> ELSE SubChain(lv.sub.lv)) ELSE <<>>
ObsSubChain(obs) == LET n == Cardinality({i \in 1..Len(obs.chain) : obs.chain[i].has_sub}) IN [i \in 1..n |-> obs.chain[i].sub]

\* C06, "the command line if it was supplied there": an argument with an occurrence on the level's command line that no
\* *later command-line occurrence* of an overriding (or overridden-by) argument removes is reported with the command line
\* as its source - nothing that merely comes from the environment or a default takes it away
P06Supplied(def, obs, top) ==
  (obs.outcome = "Ok" /\ ~def.s.ignore_errors) =>
     LET cs == CmdChain(Build(def, NoInherit), obs.chain, 1) leds == LedChain(top) IN
     \A i \in 1..Len(cs) : i <= Len(leds) =>
        LET led == SelectSeq(leds[i], LAMBDA o : o.k = "occ" /\ HasArg(cs[i], o.id)) IN
        \A p \in 1..Len(led) :
           LET b == led[p].id
               removedLater == \E q \in (p + 1)..Len(led) :
                                  led[q].id # b /\ (b \in SeqToSet(ArgOf(cs[i], led[q].id).overrides) \/ led[q].id \in SeqToSet(ArgOf(cs[i], b).overrides))
           IN (~removedLater /\ ~ArgOf(cs[i], b).global) => EHas(obs.chain[i], b) /\ EGet(obs.chain[i], b).src = "cli"

\* a level's own matches before globals were copied in: P07 is about the level's own command line
P07(def, obs, top) ==
  (obs.outcome = "Ok" /\ ~def.s.ignore_errors /\ ~top.err) =>
     LET cs == CmdChain(Build(def, NoInherit), obs.chain, 1) leds == LedChain(top) IN
     \A i \in 1..Len(cs) : i <= Len(leds) =>
        LET c == [cs[i] EXCEPT !.args = SelectSeq(@, LAMBDA a : ~a.global)]
            E == [obs.chain[i] EXCEPT !.args = SelectSeq(@, LAMBDA e : ~(HasArg(cs[i], e.id) /\ ArgOf(cs[i], e.id).global))]
            led == SelectSeq(leds[i], LAMBDA o : o.k = "occ" /\ HasArg(c, o.id))
        IN P07Level(c, E, led)

\* ---- C02: attribution = the grammar's (the model's) -------------------------------------
CliPart(obs) == [i \in 1..Len(obs.chain) |->
                   {[id |-> e.id, idx |-> e.idx, occ |-> e.occ] : e \in {obs.chain[i].args[j] : j \in {k \in 1..Len(obs.chain[i].args) : obs.chain[i].args[k].src = "cli"}}}]
\* indices are unique among the arguments a level parsed itself; a global copied in from another
\* level carries that level's indices and is left out
IndexDistinct(def, obs) ==
  LET cs == CmdChain(Build(def, NoInherit), obs.chain, 1) IN
  \A i \in 1..Len(cs) :
    LET all == Concat([j \in 1..Len(obs.chain[i].args) |->
                 LET e == obs.chain[i].args[j] IN
                 IF e.src = "cli" /\ ~(HasArg(cs[i], e.id) /\ ArgOf(cs[i], e.id).global) THEN e.idx ELSE <<>>])
    IN \A x, y \in 1..Len(all) : x # y => all[x] # all[y]
IsSubstring(h, n) == n = <<>> \/ Contains(h, n)
ValuesFromArgv(def, argv, obs) ==    \* nothing invented: every command-line value of a value-taking argument occurs in argv
  LET cs == CmdChain(Build(def, NoInherit), obs.chain, 1) IN
  \A i \in 1..Len(cs) : \A j \in 1..Len(obs.chain[i].args) :
     LET e == obs.chain[i].args[j] IN
     (e.src = "cli" /\ HasArg(cs[i], e.id) /\ ArgOf(cs[i], e.id).action \in {"Set", "Append"} /\ ArgOf(cs[i], e.id).missing = <<>>)
        => \A v \in SeqToSet(Concat(e.occ)) : \E t \in 1..Len(argv) : IsSubstring(argv[t], v)
P02(def, argv, obs, mobs) ==
  obs.outcome = "Ok" =>
     /\ IndexDistinct(def, obs)
     /\ ValuesFromArgv(def, argv, obs)
     /\ (mobs.outcome = "Ok" => CliPart(obs) = CliPart(mobs))
     \* a line the grammar cannot attribute (unknown token, value count outside the declared range) is not accepted
     /\ (mobs.outcome = "Err" => mobs.kind \notin {"UnknownArgument", "UnknownArgument|InvalidSubcommand", "InvalidSubcommand",
                                                  "TooManyValues", "TooFewValues", "WrongNumberOfValues", "NoEquals"})

\* ---- C05: everything after the escape is verbatim positional -------------------------------
\* the escape position of the level that consumed it (model ledger), 0 if none
RECURSIVE EscapeAt(_)
EscapeAt(lv) ==
  LET own == SelectSeq(lv.led, LAMBDA o : o.k = "escape") IN
  IF own # <<>> THEN [at |-> own[1].at, depth |-> 1]
  ELSE IF lv.sub.set /\ ~lv.sub.ext THEN (LET d == EscapeAt(lv.sub.lv) IN [at |-> d.at, depth |-> IF d.at = 0 THEN 0 ELSE d.depth + 1])
  ELSE [at |-> 0, depth |-> 0]
\* the values `v` are the tokens `t` in order, where only tokens equal to a declared value terminator may be missing
\* (DevTerminatorAfterEscape: a positional's value_terminator still terminates - and is dropped - after `--`; whether a
\* given occurrence of that text was the sentinel or an ordinary value of another positional is not prescribed here)
RECURSIVE MatchDroppingTerms(_, _, _)
MatchDroppingTerms(t, v, terms) ==
  IF t = <<>> THEN v = <<>>
  ELSE \/ (v # <<>> /\ Head(t) = Head(v) /\ MatchDroppingTerms(Tail(t), Tail(v), terms))
       \/ (Head(t) \in terms /\ MatchDroppingTerms(Tail(t), v, terms))
\* a token with every occurrence of the level's declared delimiters removed
RECURSIVE StripDelims(_, _, _)
StripDelims(tok, poss, q) ==
  IF q > Len(poss) THEN tok
  ELSE StripDelims(IF poss[q].delim # 0 THEN Concat(Split(tok, Utf8Enc(poss[q].delim))) ELSE tok, poss, q + 1)
P05(def, argv, obs, top) ==
  LET esc == EscapeAt(top) IN
  (obs.outcome = "Ok" /\ ~def.s.ignore_errors /\ esc.at # 0 /\ esc.depth <= Len(CmdChain(Build(def, NoInherit), obs.chain, 1))
     \* "when a command has positionals able to absorb them"
     /\ LET c0 == CmdChain(Build(def, NoInherit), obs.chain, 1)[esc.depth] ps == Positionals(c0) IN
        (\E k \in 1..Len(ps) : ps[k].nmax >= INF) \/ Len(ps) >= Len(argv) - esc.at) =>
     LET cs == CmdChain(Build(def, NoInherit), obs.chain, 1)
         c == cs[esc.depth]
         E == obs.chain[esc.depth]
         poss == Positionals(c)
         \* DevTerminatorAfterEscape: a positional's declared value_terminator still terminates (and is
         \* dropped) after `--`; such tokens are the argument's own sentinel, not data
         tail == SelectSeq(SubSeq(argv, esc.at + 1, Len(argv)), LAMBDA t : ~(\E q \in 1..Len(poss) : poss[q].term # <<>> /\ poss[q].term = t))
         \* positional values of that level in index order
         byIdx == [k \in 1..Len(poss) |-> LET p == CHOOSE q \in SeqToSet(poss) : q.idx = k IN
                                          IF EHas(E, p.id) /\ EGet(E, p.id).src = "cli" THEN Concat(EGet(E, p.id).occ) ELSE <<>>]
         allVals == Concat(byIdx)
         dont == Set(c, "dont_delimit_trailing_values")
         hasDelim == \E k \in 1..Len(poss) : poss[k].delim # 0
         n == Len(tail)
     IN /\ ~E.has_sub                                             \* nothing after `--` is a subcommand
        /\ (\A k \in 1..Len(poss) : poss[k].idx \in 1..Len(poss))
        /\ IF hasDelim /\ ~dont
           THEN \* a declared delimiter may split tail values; their concatenation is still the tail
                \E m \in 0..Len(allVals) : Concat(SubSeq(allVals, Len(allVals) - m + 1, Len(allVals)))
                      = Concat([k \in 1..n |-> StripDelims(tail[k], poss, 1)])
           ELSE LET rawTail == SubSeq(argv, esc.at + 1, Len(argv))
                    terms == {poss[q].term : q \in {j \in 1..Len(poss) : poss[j].term # <<>>}}
                IN
                /\ \E m \in 0..Len(allVals) : MatchDroppingTerms(rawTail, SubSeq(allVals, Len(allVals) - m + 1, Len(allVals)), terms)
                \* a `last(true)` positional is the one "only able to be accessed via the `--` syntax": with one
                \* defined, the tail is exactly what it received (in order; no tail token leaks into an earlier positional)
                /\ \A k \in 1..Len(poss) : poss[k].last /\ n > 0 =>
                      EHas(E, poss[k].id) /\ EGet(E, poss[k].id).src = "cli" /\ MatchDroppingTerms(rawTail, Concat(EGet(E, poss[k].id).occ), terms)

\* ---- C09: chain and globals --------------------------------------------------------------------
GlobalsAgree(def, obs) ==
  LET cs == CmdChain(Build(def, NoInherit), obs.chain, 1) IN
  \A i \in 1..Len(cs) : \A j \in 1..Len(cs[i].args) :
     LET g == cs[i].args[j] IN
     g.global =>
       \A k \in i..Len(cs) : \A l \in i..Len(cs) :
          (EHas(obs.chain[k], g.id) <=> EHas(obs.chain[l], g.id))
          /\ (EHas(obs.chain[k], g.id) /\ EHas(obs.chain[l], g.id)
                => EGet(obs.chain[k], g.id).src = EGet(obs.chain[l], g.id).src /\ EGet(obs.chain[k], g.id).occ = EGet(obs.chain[l], g.id).occ)
ExplicitGlobalWins(def, obs, top) ==
  LET cs == CmdChain(Build(def, NoInherit), obs.chain, 1) leds == LedChain(top) IN
  \A i \in 1..Len(cs) : \A j \in 1..Len(cs[i].args) :
     LET g == cs[i].args[j] IN
     (g.global /\ \E k \in i..Len(leds) : \E o \in SeqToSet(leds[k]) : o.k = "occ" /\ o.id = g.id)
        => EHas(obs.chain[i], g.id) /\ EGet(obs.chain[i], g.id).src = "cli"
\* depth of the level at which the grammar rejects the line (1 = the top-level command)
RECURSIVE FailDepth(_, _)
FailDepth(c, lv) ==
  IF lv.sub.set /\ ~lv.sub.ext /\ lv.sub.lv.err /\ FindSubcommand(c, lv.sub.name) # 0
  THEN 1 + FailDepth(Build(c.subs[SubView(c)[FindSubcommand(c, lv.sub.name)].i], c.childInh), lv.sub.lv)
  ELSE 1
P09(def, obs, top, mobs) ==
  /\ (obs.outcome = "Ok" /\ ~def.s.ignore_errors /\ ~top.err) =>
        /\ ObsSubChain(obs) = SubChain(top)
        /\ GlobalsAgree(def, obs)
        /\ ExplicitGlobalWins(def, obs, top)
        \* each subcommand level's arguments are what that level's definition makes of that level's tokens
        /\ (mobs.outcome = "Ok" /\ Len(obs.chain) = Len(mobs.chain) => \A i \in 2..Len(obs.chain) : CliPart(obs)[i] = CliPart(mobs)[i])
  \* ... and a line that a subcommand level's own definition rejects is not accepted on that level's behalf
  /\ (obs.outcome = "Ok" /\ ~def.s.ignore_errors /\ top.err /\ ~top.panic) => FailDepth(Build(def, NoInherit), top) < 2
  \* ... and a line on which the grammar finds a chain of subcommands is not turned down as naming something unknown
  /\ ~(/\ obs.outcome = "Err" /\ obs.kind \in {"UnknownArgument", "InvalidSubcommand"} /\ ~def.s.ignore_errors
       /\ mobs.outcome = "Ok" /\ Len(mobs.chain) >= 2)

\* ---- C10: rejections justified and classified ---------------------------------------------------
KindContract(obs) ==
  obs.outcome = "Err" =>
     /\ (obs.kind \in {"DisplayHelp", "DisplayVersion"}) <=> ~obs.stderr
     /\ obs.exit = (IF obs.stderr THEN 2 ELSE 0)
KindAllowed(k, modelKind) ==
  k = modelKind \/ (modelKind = "UnknownArgument|InvalidSubcommand" /\ k \in {"UnknownArgument", "InvalidSubcommand"})
\* the model's matcher at the failing level, as an observation level (for the relation-based justifications)
RECURSIVE FailLevel(_, _)
FailLevel(c, lv) ==
  IF lv.sub.set /\ ~lv.sub.ext /\ lv.sub.lv.err /\ FindSubcommand(c, lv.sub.name) # 0
  THEN FailLevel(Build(c.subs[SubView(c)[FindSubcommand(c, lv.sub.name)].i], c.childInh), lv.sub.lv)
  ELSE [c |-> c, led |-> lv.led, E |-> [args |-> [i \in 1..Len(lv.m) |-> EntryObs(lv.m[i])], sub |-> <<>>, has_sub |-> lv.sub.set]]
\* C05, the rejecting side: once the failing level has consumed a bare `--` and has a positional that takes any number of
\* values after it (the `last` one if there is one), no tail token can be "unknown": UnknownArgument / InvalidSubcommand
\* would mean a tail token was read as a flag, option or subcommand.  (Declared value terminators stay sentinels.)
\* C05, last sentence: "flags and options given before the `--` keep exactly the values they would have had without the
\* tail": at the level that consumed the `--`, every flag / option has the occurrences it has when the line stops at the `--`
\* (judged when that shorter line is itself accepted and names the same chain)
P05Keep(def, argv, obs, top) ==
  LET esc == EscapeAt(top) IN
  (obs.outcome = "Ok" /\ ~def.s.ignore_errors /\ esc.at # 0 /\ esc.depth <= Len(obs.chain)) =>
     LET pre == Run(def, SubSeq(argv, 1, esc.at))
         cs == CmdChain(Build(def, NoInherit), obs.chain, 1)
     IN (pre.outcome = "Ok" /\ Len(pre.chain) >= esc.depth /\ esc.depth <= Len(cs)) =>
          LET c == cs[esc.depth] E == obs.chain[esc.depth] P == pre.chain[esc.depth] IN
          \A i \in 1..Len(c.args) :
             LET a == c.args[i] IN
             (~a.positional /\ ~a.global) =>
                LET inE == EHas(E, a.id) /\ EGet(E, a.id).src = "cli"
                    inP == EHas(P, a.id) /\ EGet(P, a.id).src = "cli"
                IN inE = inP /\ (inE => EGet(E, a.id).occ = EGet(P, a.id).occ)
P05Err(def, obs, top) ==
  (obs.outcome = "Err" /\ ~def.s.ignore_errors /\ ~top.panic /\ obs.kind \in {"UnknownArgument", "InvalidSubcommand"}) =>
     LET f == FailLevel(Build(def, NoInherit), top)
         poss == Positionals(f.c)
         lasts == SelectSeq(poss, LAMBDA p : p.last)
         \* ... and that positional is still ahead: no positional behind it was filled from the command line before (with
         \* low-index multiples the parser may already have moved on to the last positional when the `--` arrives)
         filledIdx == {ArgOf(f.c, f.led[i].id).idx : i \in {j \in 1..Len(f.led) : f.led[j].k = "occ" /\ HasArg(f.c, f.led[j].id) /\ ArgOf(f.c, f.led[j].id).positional}}
         stillAhead(p) == \A x \in filledIdx : x <= p.idx
         absorbs == IF lasts # <<>> THEN lasts[1].nmax >= INF ELSE \E k \in 1..Len(poss) : poss[k].nmax >= INF /\ stillAhead(poss[k])
     IN ~(/\ \E i \in 1..Len(f.led) : f.led[i].k = "escape"
          /\ absorbs
          /\ \A k \in 1..Len(poss) : poss[k].term = <<>>)
Justified(def, obs, top) ==
  LET f == FailLevel(Build(def, NoInherit), top) P == PresentArgs(f.c, f.E)
      occs == SelectSeq(f.led, LAMBDA o : o.k = "occ")
      repeated == \E i, j \in 1..Len(occs) : i # j /\ occs[i].id = occs[j].id
      overridePair == \E a, b \in P : a # b /\ b \in SeqToSet(ArgOf(f.c, a).overrides)
  IN
  \* some requirement really is unmet (whether an exemption would also have applied is clap's call)
  CASE obs.kind = "MissingRequiredArgument" -> \E r \in RequiredNow(f.c, f.E, P) : ~Satisfied(f.c, P, r)
    [] obs.kind = "ArgumentConflict" ->
         \/ repeated \/ Set(f.c, "args_conflicts_with_subcommands") \/ overridePair
         \/ \E a \in P : GroupsOf(f.c, a) \cap DeclConflicts(f.c, a) # {}      \* an argument declared to conflict with its own group
         \/ ~(NoConflict(f.c, P) /\ ExclusiveAlone(f.c, P) /\ GroupAtMostOne(f.c, P))
    [] OTHER -> TRUE
\* ---- suggestions only ever name things that exist ----------------------------------------------------
\* what the "For more information, try 'X'." footer names (error/format.rs get_help_flag), as the code computes it
DD == <<45, 45>>
TryTarget(c) ==
  LET ui == FirstIdx(c.args, LAMBDA a : a.action \in {"Help", "HelpShort", "HelpLong"}) IN
  IF ~Set(c, "disable_help_flag") THEN DD \o HELP
  ELSE IF ui # 0 THEN (IF c.args[ui].long # <<>> THEN DD \o c.args[ui].long ELSE <<45>> \o c.args[ui].short)
  ELSE IF c.subs # <<>> /\ ~Set(c, "disable_help_subcommand") THEN HELP
  ELSE <<>>
\* (help output - also the one printed for arg_required_else_help - carries no footer)
\* the command a failing `help <words>` walk ended in: [auto |-> TRUE] for the generated help subcommand itself
\* (built with DisableHelpFlag and, at parse time, without subcommands: its errors carry no footer)
RECURSIVE HelpWalkEnd(_, _, _)
HelpWalkEnd(c, words, i) ==
  IF i > Len(words) THEN [auto |-> FALSE, c |-> c]
  ELSE LET si == FindSubcommand(c, words[i]) IN
       IF si = 0 THEN [auto |-> FALSE, c |-> c]
       ELSE IF SubView(c)[si].auto THEN [auto |-> TRUE, c |-> c]
       ELSE HelpWalkEnd(Build(c.subs[SubView(c)[si].i], c.childInh), words, i + 1)
RECURSIVE FailCmd(_, _)
FailCmd(c, lv) ==
  IF lv.sub.set /\ ~lv.sub.ext /\ lv.sub.lv.err /\ FindSubcommand(c, lv.sub.name) # 0
  THEN FailCmd(Build(c.subs[SubView(c)[FindSubcommand(c, lv.sub.name)].i], c.childInh), lv.sub.lv)
  ELSE IF ~lv.sub.set /\ lv.sub.name = HELP THEN HelpWalkEnd(c, lv.sub.lv, 1)
  ELSE [auto |-> FALSE, c |-> c]
ExpectedTry(def, top, kind) == IF IsStdoutKind(kind) \/ kind = "DisplayHelpOnMissingArgumentOrSubcommand" THEN <<>>
                               ELSE LET f == FailCmd(Build(def, NoInherit), top) IN IF f.auto THEN <<>> ELSE TryTarget(f.c)
\* ... and what it means for a named thing to exist at a level (declaratively: the level answers to it)
SubNamed(c, x) == \E i \in 1..Len(SubView(c)) : SubView(c)[i].name = x \/ x \in SeqToSet(SubView(c)[i].aliases)
LongNamed(c, x) == Len(x) > 2 /\ SubSeq(x, 1, 2) = DD /\ KeyLongIdx(c, SubSeq(x, 3, Len(x))) # 0
ShortNamed(c, x) == Len(x) = 2 /\ x[1] = 45 /\ x[2] # 45 /\ KeyShortIdx(c, <<x[2]>>) # 0
NoSuggestions == [try |-> <<>>, args |-> <<>>, subs |-> <<>>, vals |-> <<>>, subflag |-> <<>>, ddsub |-> <<>>]
SuggestionsExist(def, top, sg) ==
  LET f == FailCmd(Build(def, NoInherit), top) c == f.c IN
  /\ sg.try = <<>> \/ (~f.auto /\ (LongNamed(c, sg.try) \/ ShortNamed(c, sg.try) \/ SubNamed(c, sg.try)))
  /\ \A i \in 1..Len(sg.args) : LongNamed(c, sg.args[i])
  /\ \A i \in 1..Len(sg.subs) : SubNamed(c, sg.subs[i])
  \* ("subcommand 'x' exists; remove the `--`": x is whatever the level would take as a subcommand - an inferred prefix too)
  /\ \A i \in 1..Len(sg.ddsub) : SubNamed(c, sg.ddsub[i]) \/ PossibleSubcommand(c, sg.ddsub[i], FALSE).some
  /\ \A i \in 1..Len(sg.vals) : \E k \in 1..Len(c.args) :
        \E q \in 1..Len(c.args[k].vp.pvs) : c.args[k].vp.pvs[q] = sg.vals[i] \/ sg.vals[i] \in SeqToSet(c.args[k].vp.pv_aliases[q])
  /\ \A i \in 1..Len(sg.subflag) :
        LET si == FindSubcommand(c, sg.subflag[i].sub) IN
        si # 0 /\ ~SubView(c)[si].auto /\ LongNamed(Build(c.subs[SubView(c)[si].i], c.childInh), sg.subflag[i].flag)

P10(def, obs, top, mobs, sg) ==
  /\ KindContract(obs)
  /\ (obs.outcome = "Err" /\ ~top.panic =>
        /\ mobs.outcome = "Err"                    \* inputs that break no rule are not rejected
        /\ KindAllowed(obs.kind, mobs.kind)
        /\ Justified(def, obs, top)
        /\ SuggestionsExist(def, top, sg))

\* (the former witness class KF-C10-1 - a group entry surviving the override of its only present member - was repaired
\* in clap, fix 6b89b3b; RemoveOverrides in Parser.tla prunes the groups' entries as the code now does)

\* ---- observation equality (argument order inside a level is not observable) ------------------------
\* ... and the same up to argument indices
StripIdx(o) == [o EXCEPT !.chain = [i \in 1..Len(o.chain) |-> [o.chain[i] EXCEPT !.args = [j \in 1..Len(o.chain[i].args) |-> [o.chain[i].args[j] EXCEPT !.idx = <<>>]]]]]
LevelSet(E) == [args |-> {E.args[i] : i \in 1..Len(E.args)}, sub |-> E.sub, has_sub |-> E.has_sub]
ObsEq(o, m) ==
  /\ o.outcome = m.outcome /\ o.stderr = m.stderr /\ o.exit = m.exit
  /\ KindAllowed(o.kind, m.kind)
  /\ Len(o.chain) = Len(m.chain)
  /\ \A i \in 1..Len(o.chain) : LevelSet(o.chain[i]) = LevelSet(m.chain[i])
=============================================================================
