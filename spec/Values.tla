------------------------------- MODULE Values ------------------------------
(***************************************************************************)
(* Built-in value parsers (clap_builder/src/builder/value_parser.rs,       *)
(* util/str_to_bool.rs, builder/possible_value.rs) and typed access to     *)
(* ArgMatches (parser/matches/arg_matches.rs).                             *)
(* Integers are arbitrary-precision signed digit strings because TLC's     *)
(* integers are 32-bit: [neg, mag] with mag a digit sequence without       *)
(* leading zeros (<<>> is zero, never negative).                           *)
(***************************************************************************)
EXTENDS Bytes

PLUS == 43
MINUS == 45
ZERO == 48

RECURSIVE StripZeros(_)
StripZeros(d) == IF d # <<>> /\ Head(d) = 0 THEN StripZeros(Tail(d)) ELSE d
Norm(neg, digits) == LET m == StripZeros(digits) IN [neg |-> neg /\ m # <<>>, mag |-> m]

\* compare magnitudes: -1, 0, 1
RECURSIVE LexCmp(_, _)
LexCmp(a, b) == IF a = <<>> THEN 0
                ELSE IF Head(a) < Head(b) THEN -1 ELSE IF Head(a) > Head(b) THEN 1 ELSE LexCmp(Tail(a), Tail(b))
MagCmp(a, b) == IF Len(a) < Len(b) THEN -1 ELSE IF Len(a) > Len(b) THEN 1 ELSE LexCmp(a, b)
NumCmp(x, y) ==
  IF x.neg /\ ~y.neg THEN -1
  ELSE IF ~x.neg /\ y.neg THEN 1
  ELSE IF x.neg THEN MagCmp(y.mag, x.mag) ELSE MagCmp(x.mag, y.mag)
LE(x, y) == NumCmp(x, y) <= 0
LT(x, y) == NumCmp(x, y) < 0

\* canonical decimal rendering (what `{}` prints)
NumStr(x) == (IF x.neg THEN <<MINUS>> ELSE <<>>) \o
             (IF x.mag = <<>> THEN <<ZERO>> ELSE [i \in 1..Len(x.mag) |-> x.mag[i] + 48])

IsDigits(s) == s # <<>> /\ \A i \in 1..Len(s) : IsDigit(s[i])
\* core::num from_str: optional '+', optional '-' for signed types only, then at least one digit
ParseDec(s, signed) ==
  LET hasPlus == s # <<>> /\ s[1] = PLUS
      hasMinus == s # <<>> /\ s[1] = MINUS /\ signed
      body == IF hasPlus \/ hasMinus THEN Tail(s) ELSE s
  IN IF IsDigits(body) THEN Some(Norm(hasMinus, [i \in 1..Len(body) |-> body[i] - 48])) ELSE None

TypeNames == {"u8", "i8", "u16", "i16", "u32", "i32", "i64", "u64"}
TypeMin == [t \in TypeNames |-> CASE t = "u8" -> [neg |-> FALSE, mag |-> <<>>] [] t = "i8" -> [neg |-> TRUE, mag |-> <<1,2,8>>] [] t = "u16" -> [neg |-> FALSE, mag |-> <<>>] [] t = "i16" -> [neg |-> TRUE, mag |-> <<3,2,7,6,8>>] [] t = "u32" -> [neg |-> FALSE, mag |-> <<>>] [] t = "i32" -> [neg |-> TRUE, mag |-> <<2,1,4,7,4,8,3,6,4,8>>] [] t = "i64" -> [neg |-> TRUE, mag |-> <<9,2,2,3,3,7,2,0,3,6,8,5,4,7,7,5,8,0,8>>] [] t = "u64" -> [neg |-> FALSE, mag |-> <<>>]]
TypeMax == [t \in TypeNames |-> CASE t = "u8" -> [neg |-> FALSE, mag |-> <<2,5,5>>] [] t = "i8" -> [neg |-> FALSE, mag |-> <<1,2,7>>] [] t = "u16" -> [neg |-> FALSE, mag |-> <<6,5,5,3,5>>] [] t = "i16" -> [neg |-> FALSE, mag |-> <<3,2,7,6,7>>] [] t = "u32" -> [neg |-> FALSE, mag |-> <<4,2,9,4,9,6,7,2,9,5>>] [] t = "i32" -> [neg |-> FALSE, mag |-> <<2,1,4,7,4,8,3,6,4,7>>] [] t = "i64" -> [neg |-> FALSE, mag |-> <<9,2,2,3,3,7,2,0,3,6,8,5,4,7,7,5,8,0,7>>] [] t = "u64" -> [neg |-> FALSE, mag |-> <<1,8,4,4,6,7,4,4,0,7,3,7,0,9,5,5,1,6,1,5>>]]
BoundsOfInterest == [t \in TypeNames |-> CASE t = "u8" -> {[neg |-> TRUE, mag |-> <<1>>], [neg |-> FALSE, mag |-> <<>>], [neg |-> FALSE, mag |-> <<1>>], [neg |-> FALSE, mag |-> <<7>>], [neg |-> FALSE, mag |-> <<2,5,4>>], [neg |-> FALSE, mag |-> <<2,5,5>>], [neg |-> FALSE, mag |-> <<2,5,6>>]} [] t = "i8" -> {[neg |-> TRUE, mag |-> <<1,2,9>>], [neg |-> TRUE, mag |-> <<1,2,8>>], [neg |-> TRUE, mag |-> <<1,2,7>>], [neg |-> TRUE, mag |-> <<1>>], [neg |-> FALSE, mag |-> <<>>], [neg |-> FALSE, mag |-> <<1>>], [neg |-> FALSE, mag |-> <<7>>], [neg |-> FALSE, mag |-> <<1,2,6>>], [neg |-> FALSE, mag |-> <<1,2,7>>], [neg |-> FALSE, mag |-> <<1,2,8>>]} [] t = "u16" -> {[neg |-> TRUE, mag |-> <<1>>], [neg |-> FALSE, mag |-> <<>>], [neg |-> FALSE, mag |-> <<1>>], [neg |-> FALSE, mag |-> <<7>>], [neg |-> FALSE, mag |-> <<6,5,5,3,4>>], [neg |-> FALSE, mag |-> <<6,5,5,3,5>>], [neg |-> FALSE, mag |-> <<6,5,5,3,6>>]} [] t = "i16" -> {[neg |-> TRUE, mag |-> <<3,2,7,6,9>>], [neg |-> TRUE, mag |-> <<3,2,7,6,8>>], [neg |-> TRUE, mag |-> <<3,2,7,6,7>>], [neg |-> TRUE, mag |-> <<1>>], [neg |-> FALSE, mag |-> <<>>], [neg |-> FALSE, mag |-> <<1>>], [neg |-> FALSE, mag |-> <<7>>], [neg |-> FALSE, mag |-> <<3,2,7,6,6>>], [neg |-> FALSE, mag |-> <<3,2,7,6,7>>], [neg |-> FALSE, mag |-> <<3,2,7,6,8>>]} [] t = "u32" -> {[neg |-> TRUE, mag |-> <<1>>], [neg |-> FALSE, mag |-> <<>>], [neg |-> FALSE, mag |-> <<1>>], [neg |-> FALSE, mag |-> <<7>>], [neg |-> FALSE, mag |-> <<4,2,9,4,9,6,7,2,9,4>>], [neg |-> FALSE, mag |-> <<4,2,9,4,9,6,7,2,9,5>>], [neg |-> FALSE, mag |-> <<4,2,9,4,9,6,7,2,9,6>>]} [] t = "i32" -> {[neg |-> TRUE, mag |-> <<2,1,4,7,4,8,3,6,4,9>>], [neg |-> TRUE, mag |-> <<2,1,4,7,4,8,3,6,4,8>>], [neg |-> TRUE, mag |-> <<2,1,4,7,4,8,3,6,4,7>>], [neg |-> TRUE, mag |-> <<1>>], [neg |-> FALSE, mag |-> <<>>], [neg |-> FALSE, mag |-> <<1>>], [neg |-> FALSE, mag |-> <<7>>], [neg |-> FALSE, mag |-> <<2,1,4,7,4,8,3,6,4,6>>], [neg |-> FALSE, mag |-> <<2,1,4,7,4,8,3,6,4,7>>], [neg |-> FALSE, mag |-> <<2,1,4,7,4,8,3,6,4,8>>]} [] t = "i64" -> {[neg |-> TRUE, mag |-> <<9,2,2,3,3,7,2,0,3,6,8,5,4,7,7,5,8,0,8>>], [neg |-> TRUE, mag |-> <<9,2,2,3,3,7,2,0,3,6,8,5,4,7,7,5,8,0,7>>], [neg |-> TRUE, mag |-> <<1>>], [neg |-> FALSE, mag |-> <<>>], [neg |-> FALSE, mag |-> <<1>>], [neg |-> FALSE, mag |-> <<7>>], [neg |-> FALSE, mag |-> <<9,2,2,3,3,7,2,0,3,6,8,5,4,7,7,5,8,0,6>>], [neg |-> FALSE, mag |-> <<9,2,2,3,3,7,2,0,3,6,8,5,4,7,7,5,8,0,7>>]} [] t = "u64" -> {[neg |-> FALSE, mag |-> <<>>], [neg |-> FALSE, mag |-> <<1>>], [neg |-> FALSE, mag |-> <<7>>], [neg |-> FALSE, mag |-> <<1,8,4,4,6,7,4,4,0,7,3,7,0,9,5,5,1,6,1,4>>], [neg |-> FALSE, mag |-> <<1,8,4,4,6,7,4,4,0,7,3,7,0,9,5,5,1,6,1,5>>]}]
NumbersOfInterest == [t \in TypeNames |-> CASE t = "u8" -> {[neg |-> TRUE, mag |-> <<1,0,0,0,0,0,0,0,0,0,0,0,0,0,0,0,0,0,0,0,0>>], [neg |-> TRUE, mag |-> <<9,2,2,3,3,7,2,0,3,6,8,5,4,7,7,5,8,0,9>>], [neg |-> TRUE, mag |-> <<9,2,2,3,3,7,2,0,3,6,8,5,4,7,7,5,8,0,8>>], [neg |-> TRUE, mag |-> <<1>>], [neg |-> FALSE, mag |-> <<>>], [neg |-> FALSE, mag |-> <<1>>], [neg |-> FALSE, mag |-> <<7>>], [neg |-> FALSE, mag |-> <<8>>], [neg |-> FALSE, mag |-> <<2,5,4>>], [neg |-> FALSE, mag |-> <<2,5,5>>], [neg |-> FALSE, mag |-> <<2,5,6>>], [neg |-> FALSE, mag |-> <<9,2,2,3,3,7,2,0,3,6,8,5,4,7,7,5,8,0,7>>], [neg |-> FALSE, mag |-> <<9,2,2,3,3,7,2,0,3,6,8,5,4,7,7,5,8,0,8>>], [neg |-> FALSE, mag |-> <<9,9,9,9,9,9,9,9,9,9,9,9,9,9,9,9,9,9,9>>], [neg |-> FALSE, mag |-> <<9,9,9,9,9,9,9,9,9,9,9,9,9,9,9,9,9,9,9,9>>], [neg |-> FALSE, mag |-> <<1,0,0,0,0,0,0,0,0,0,0,0,0,0,0,0,0,0,0,0,0>>]} [] t = "i8" -> {[neg |-> TRUE, mag |-> <<1,0,0,0,0,0,0,0,0,0,0,0,0,0,0,0,0,0,0,0,0>>], [neg |-> TRUE, mag |-> <<9,2,2,3,3,7,2,0,3,6,8,5,4,7,7,5,8,0,9>>], [neg |-> TRUE, mag |-> <<9,2,2,3,3,7,2,0,3,6,8,5,4,7,7,5,8,0,8>>], [neg |-> TRUE, mag |-> <<1,2,9>>], [neg |-> TRUE, mag |-> <<1,2,8>>], [neg |-> TRUE, mag |-> <<1,2,7>>], [neg |-> TRUE, mag |-> <<1>>], [neg |-> FALSE, mag |-> <<>>], [neg |-> FALSE, mag |-> <<1>>], [neg |-> FALSE, mag |-> <<7>>], [neg |-> FALSE, mag |-> <<8>>], [neg |-> FALSE, mag |-> <<1,2,6>>], [neg |-> FALSE, mag |-> <<1,2,7>>], [neg |-> FALSE, mag |-> <<1,2,8>>], [neg |-> FALSE, mag |-> <<9,2,2,3,3,7,2,0,3,6,8,5,4,7,7,5,8,0,7>>], [neg |-> FALSE, mag |-> <<9,2,2,3,3,7,2,0,3,6,8,5,4,7,7,5,8,0,8>>], [neg |-> FALSE, mag |-> <<9,9,9,9,9,9,9,9,9,9,9,9,9,9,9,9,9,9,9>>], [neg |-> FALSE, mag |-> <<9,9,9,9,9,9,9,9,9,9,9,9,9,9,9,9,9,9,9,9>>], [neg |-> FALSE, mag |-> <<1,0,0,0,0,0,0,0,0,0,0,0,0,0,0,0,0,0,0,0,0>>]} [] t = "u16" -> {[neg |-> TRUE, mag |-> <<1,0,0,0,0,0,0,0,0,0,0,0,0,0,0,0,0,0,0,0,0>>], [neg |-> TRUE, mag |-> <<9,2,2,3,3,7,2,0,3,6,8,5,4,7,7,5,8,0,9>>], [neg |-> TRUE, mag |-> <<9,2,2,3,3,7,2,0,3,6,8,5,4,7,7,5,8,0,8>>], [neg |-> TRUE, mag |-> <<1>>], [neg |-> FALSE, mag |-> <<>>], [neg |-> FALSE, mag |-> <<1>>], [neg |-> FALSE, mag |-> <<7>>], [neg |-> FALSE, mag |-> <<8>>], [neg |-> FALSE, mag |-> <<6,5,5,3,4>>], [neg |-> FALSE, mag |-> <<6,5,5,3,5>>], [neg |-> FALSE, mag |-> <<6,5,5,3,6>>], [neg |-> FALSE, mag |-> <<9,2,2,3,3,7,2,0,3,6,8,5,4,7,7,5,8,0,7>>], [neg |-> FALSE, mag |-> <<9,2,2,3,3,7,2,0,3,6,8,5,4,7,7,5,8,0,8>>], [neg |-> FALSE, mag |-> <<9,9,9,9,9,9,9,9,9,9,9,9,9,9,9,9,9,9,9>>], [neg |-> FALSE, mag |-> <<9,9,9,9,9,9,9,9,9,9,9,9,9,9,9,9,9,9,9,9>>], [neg |-> FALSE, mag |-> <<1,0,0,0,0,0,0,0,0,0,0,0,0,0,0,0,0,0,0,0,0>>]} [] t = "i16" -> {[neg |-> TRUE, mag |-> <<1,0,0,0,0,0,0,0,0,0,0,0,0,0,0,0,0,0,0,0,0>>], [neg |-> TRUE, mag |-> <<9,2,2,3,3,7,2,0,3,6,8,5,4,7,7,5,8,0,9>>], [neg |-> TRUE, mag |-> <<9,2,2,3,3,7,2,0,3,6,8,5,4,7,7,5,8,0,8>>], [neg |-> TRUE, mag |-> <<3,2,7,6,9>>], [neg |-> TRUE, mag |-> <<3,2,7,6,8>>], [neg |-> TRUE, mag |-> <<3,2,7,6,7>>], [neg |-> TRUE, mag |-> <<1>>], [neg |-> FALSE, mag |-> <<>>], [neg |-> FALSE, mag |-> <<1>>], [neg |-> FALSE, mag |-> <<7>>], [neg |-> FALSE, mag |-> <<8>>], [neg |-> FALSE, mag |-> <<3,2,7,6,6>>], [neg |-> FALSE, mag |-> <<3,2,7,6,7>>], [neg |-> FALSE, mag |-> <<3,2,7,6,8>>], [neg |-> FALSE, mag |-> <<9,2,2,3,3,7,2,0,3,6,8,5,4,7,7,5,8,0,7>>], [neg |-> FALSE, mag |-> <<9,2,2,3,3,7,2,0,3,6,8,5,4,7,7,5,8,0,8>>], [neg |-> FALSE, mag |-> <<9,9,9,9,9,9,9,9,9,9,9,9,9,9,9,9,9,9,9>>], [neg |-> FALSE, mag |-> <<9,9,9,9,9,9,9,9,9,9,9,9,9,9,9,9,9,9,9,9>>], [neg |-> FALSE, mag |-> <<1,0,0,0,0,0,0,0,0,0,0,0,0,0,0,0,0,0,0,0,0>>]} [] t = "u32" -> {[neg |-> TRUE, mag |-> <<1,0,0,0,0,0,0,0,0,0,0,0,0,0,0,0,0,0,0,0,0>>], [neg |-> TRUE, mag |-> <<9,2,2,3,3,7,2,0,3,6,8,5,4,7,7,5,8,0,9>>], [neg |-> TRUE, mag |-> <<9,2,2,3,3,7,2,0,3,6,8,5,4,7,7,5,8,0,8>>], [neg |-> TRUE, mag |-> <<1>>], [neg |-> FALSE, mag |-> <<>>], [neg |-> FALSE, mag |-> <<1>>], [neg |-> FALSE, mag |-> <<7>>], [neg |-> FALSE, mag |-> <<8>>], [neg |-> FALSE, mag |-> <<4,2,9,4,9,6,7,2,9,4>>], [neg |-> FALSE, mag |-> <<4,2,9,4,9,6,7,2,9,5>>], [neg |-> FALSE, mag |-> <<4,2,9,4,9,6,7,2,9,6>>], [neg |-> FALSE, mag |-> <<9,2,2,3,3,7,2,0,3,6,8,5,4,7,7,5,8,0,7>>], [neg |-> FALSE, mag |-> <<9,2,2,3,3,7,2,0,3,6,8,5,4,7,7,5,8,0,8>>], [neg |-> FALSE, mag |-> <<9,9,9,9,9,9,9,9,9,9,9,9,9,9,9,9,9,9,9>>], [neg |-> FALSE, mag |-> <<9,9,9,9,9,9,9,9,9,9,9,9,9,9,9,9,9,9,9,9>>], [neg |-> FALSE, mag |-> <<1,0,0,0,0,0,0,0,0,0,0,0,0,0,0,0,0,0,0,0,0>>]} [] t = "i32" -> {[neg |-> TRUE, mag |-> <<1,0,0,0,0,0,0,0,0,0,0,0,0,0,0,0,0,0,0,0,0>>], [neg |-> TRUE, mag |-> <<9,2,2,3,3,7,2,0,3,6,8,5,4,7,7,5,8,0,9>>], [neg |-> TRUE, mag |-> <<9,2,2,3,3,7,2,0,3,6,8,5,4,7,7,5,8,0,8>>], [neg |-> TRUE, mag |-> <<2,1,4,7,4,8,3,6,4,9>>], [neg |-> TRUE, mag |-> <<2,1,4,7,4,8,3,6,4,8>>], [neg |-> TRUE, mag |-> <<2,1,4,7,4,8,3,6,4,7>>], [neg |-> TRUE, mag |-> <<1>>], [neg |-> FALSE, mag |-> <<>>], [neg |-> FALSE, mag |-> <<1>>], [neg |-> FALSE, mag |-> <<7>>], [neg |-> FALSE, mag |-> <<8>>], [neg |-> FALSE, mag |-> <<2,1,4,7,4,8,3,6,4,6>>], [neg |-> FALSE, mag |-> <<2,1,4,7,4,8,3,6,4,7>>], [neg |-> FALSE, mag |-> <<2,1,4,7,4,8,3,6,4,8>>], [neg |-> FALSE, mag |-> <<9,2,2,3,3,7,2,0,3,6,8,5,4,7,7,5,8,0,7>>], [neg |-> FALSE, mag |-> <<9,2,2,3,3,7,2,0,3,6,8,5,4,7,7,5,8,0,8>>], [neg |-> FALSE, mag |-> <<9,9,9,9,9,9,9,9,9,9,9,9,9,9,9,9,9,9,9>>], [neg |-> FALSE, mag |-> <<9,9,9,9,9,9,9,9,9,9,9,9,9,9,9,9,9,9,9,9>>], [neg |-> FALSE, mag |-> <<1,0,0,0,0,0,0,0,0,0,0,0,0,0,0,0,0,0,0,0,0>>]} [] t = "i64" -> {[neg |-> TRUE, mag |-> <<1,0,0,0,0,0,0,0,0,0,0,0,0,0,0,0,0,0,0,0,0>>], [neg |-> TRUE, mag |-> <<9,2,2,3,3,7,2,0,3,6,8,5,4,7,7,5,8,0,9>>], [neg |-> TRUE, mag |-> <<9,2,2,3,3,7,2,0,3,6,8,5,4,7,7,5,8,0,8>>], [neg |-> TRUE, mag |-> <<9,2,2,3,3,7,2,0,3,6,8,5,4,7,7,5,8,0,7>>], [neg |-> TRUE, mag |-> <<1>>], [neg |-> FALSE, mag |-> <<>>], [neg |-> FALSE, mag |-> <<1>>], [neg |-> FALSE, mag |-> <<7>>], [neg |-> FALSE, mag |-> <<8>>], [neg |-> FALSE, mag |-> <<9,2,2,3,3,7,2,0,3,6,8,5,4,7,7,5,8,0,6>>], [neg |-> FALSE, mag |-> <<9,2,2,3,3,7,2,0,3,6,8,5,4,7,7,5,8,0,7>>], [neg |-> FALSE, mag |-> <<9,2,2,3,3,7,2,0,3,6,8,5,4,7,7,5,8,0,8>>], [neg |-> FALSE, mag |-> <<9,9,9,9,9,9,9,9,9,9,9,9,9,9,9,9,9,9,9>>], [neg |-> FALSE, mag |-> <<9,9,9,9,9,9,9,9,9,9,9,9,9,9,9,9,9,9,9,9>>], [neg |-> FALSE, mag |-> <<1,0,0,0,0,0,0,0,0,0,0,0,0,0,0,0,0,0,0,0,0>>]} [] t = "u64" -> {[neg |-> TRUE, mag |-> <<1,0,0,0,0,0,0,0,0,0,0,0,0,0,0,0,0,0,0,0,0>>], [neg |-> TRUE, mag |-> <<1>>], [neg |-> FALSE, mag |-> <<>>], [neg |-> FALSE, mag |-> <<1>>], [neg |-> FALSE, mag |-> <<7>>], [neg |-> FALSE, mag |-> <<8>>], [neg |-> FALSE, mag |-> <<9,9,9,9,9,9,9,9,9,9,9,9,9,9,9,9,9,9,9>>], [neg |-> FALSE, mag |-> <<1,8,4,4,6,7,4,4,0,7,3,7,0,9,5,5,1,6,1,4>>], [neg |-> FALSE, mag |-> <<1,8,4,4,6,7,4,4,0,7,3,7,0,9,5,5,1,6,1,5>>], [neg |-> FALSE, mag |-> <<1,8,4,4,6,7,4,4,0,7,3,7,0,9,5,5,1,6,1,6>>], [neg |-> FALSE, mag |-> <<9,9,9,9,9,9,9,9,9,9,9,9,9,9,9,9,9,9,9,9>>], [neg |-> FALSE, mag |-> <<1,0,0,0,0,0,0,0,0,0,0,0,0,0,0,0,0,0,0,0,0>>]}]

InType(t, v) == LE(TypeMin[t], v) /\ LE(v, TypeMax[t])

\* a range: [lk, lo, hk, hi] with kinds "unb" | "inc" | "exc"
RangeContains(r, v) ==
  /\ (r.lk = "unb" \/ (r.lk = "inc" /\ LE(r.lo, v)) \/ (r.lk = "exc" /\ LT(r.lo, v)))
  /\ (r.hk = "unb" \/ (r.hk = "inc" /\ LE(v, r.hi)) \/ (r.hk = "exc" /\ LT(v, r.hi)))

\* results
VOk(v) == [k |-> "Ok", v |-> v]
VErr(kind) == [k |-> kind, v |-> <<>>]

\* ---- mechanisms as written ---------------------------------------------
\* RangedI64ValueParser<T>::parse_ref (value_parser.rs 1406-1455) and the U64 twin (1605-1654):
\*   to_str -> parse::<carrier> -> bounds.contains -> try_into::<T>
Carrier(t) == IF t = "u64" THEN "u64" ELSE "i64"
RangedParse(t, r, s) ==
  IF ~IsUtf8(s) THEN VErr("InvalidUtf8")
  ELSE LET c == Carrier(t)
           p == ParseDec(s, c = "i64")
       IN IF IsNone(p) \/ ~InType(c, p.v) THEN VErr("ValueValidation")
          ELSE IF ~RangeContains(r, p.v) THEN VErr("ValueValidation")
          ELSE IF ~InType(t, p.v) THEN VErr("ValueValidation")
          ELSE VOk(NumStr(p.v))

TRUE_LITERALS == {<<121>>, <<121,101,115>>, <<116>>, <<116,114,117,101>>, <<111,110>>, <<49>>}   \* y yes t true on 1
FALSE_LITERALS == {<<110>>, <<110,111>>, <<102>>, <<102,97,108,115,101>>, <<111,102,102>>, <<48>>} \* n no f false off 0
StrToBool(s) == LET p == LowerAscii(s) IN
  IF p \in TRUE_LITERALS THEN Some(TRUE) ELSE IF p \in FALSE_LITERALS THEN Some(FALSE) ELSE None
BoolStr(b) == IF b THEN <<116,114,117,101>> ELSE <<102,97,108,115,101>>

BoolParse(s) == IF s = <<116,114,117,101>> THEN VOk(BoolStr(TRUE))
                ELSE IF s = <<102,97,108,115,101>> THEN VOk(BoolStr(FALSE)) ELSE VErr("InvalidValue")
BoolishParse(s) == IF ~IsUtf8(s) THEN VErr("InvalidUtf8")
                   ELSE IF IsSome(StrToBool(s)) THEN VOk(BoolStr(StrToBool(s).v)) ELSE VErr("ValueValidation")
FalseyParse(s) == IF ~IsUtf8(s) THEN VErr("InvalidUtf8")
                  ELSE IF s = <<>> THEN VOk(BoolStr(FALSE))
                  ELSE VOk(BoolStr(IF IsSome(StrToBool(s)) THEN StrToBool(s).v ELSE TRUE))
\* pvs: sequence of [name, aliases (set), hide]; ignore_case from the Arg
PossibleParse(pvs, ic, s) ==
  IF ~IsUtf8(s) THEN VErr("InvalidUtf8")
  ELSE IF \E i \in 1..Len(pvs) : \E n \in {pvs[i].name} \cup pvs[i].aliases :
            IF ic THEN LowerAscii(n) = LowerAscii(s) ELSE n = s
       THEN VOk(s) ELSE VErr("InvalidValue")
\* Error::empty_value is an InvalidValue error (error/mod.rs empty_value -> invalid_value)
NonEmptyParse(s) == IF s = <<>> THEN VErr("InvalidValue") ELSE IF ~IsUtf8(s) THEN VErr("InvalidUtf8") ELSE VOk(s)
\* EnumValueParser (value_parser.rs EnumValueParser::parse_ref): to_str, then the first variant whose
\* possible value matches; the typed value is the variant, rendered here by its canonical name
EnumParse(pvs, ic, s) ==
  IF ~IsUtf8(s) THEN VErr("InvalidValue")    \* to_str() failing is reported through Error::invalid_value here
  ELSE LET hit(i) == \E n \in {pvs[i].name} \cup pvs[i].aliases : IF ic THEN LowerAscii(n) = LowerAscii(s) ELSE n = s
       IN IF \E i \in 1..Len(pvs) : hit(i)
          THEN VOk(pvs[CHOOSE i \in 1..Len(pvs) : hit(i) /\ \A j \in 1..(i - 1) : ~hit(j)].name)
          ELSE VErr("InvalidValue")
\* PathBufValueParser::parse: the empty string is Error::empty_value, everything else is taken verbatim (no UTF-8 demand)
PathBufParse(s) == IF s = <<>> THEN VErr("InvalidValue") ELSE VOk(s)
StringParse(s) == IF ~IsUtf8(s) THEN VErr("InvalidUtf8") ELSE VOk(s)
OsParse(s) == VOk(s)

\* ---- the languages, declaratively (C04) ---------------------------------
\* the set of integers a string denotes in decimal notation (empty or a singleton):
\*   [+-]? [0-9]+   where '-' is only part of the notation for a signed carrier
Denotes(s, signed) ==
  LET k == IF s # <<>> /\ (s[1] = PLUS \/ s[1] = MINUS) THEN 1 ELSE 0
      body == SubSeq(s, k + 1, Len(s))
      minus == k = 1 /\ s[1] = MINUS
  IN IF ~IsDigits(body) \/ (minus /\ ~signed) THEN {}
     ELSE {Norm(minus, [i \in 1..Len(body) |-> body[i] - 48])}
\* accepted values: inside the declared range AND the target type (AND what the carrier can hold)
RangedLang(t, r, s) ==
  IF ~IsUtf8(s) THEN {}
  ELSE {v \in Denotes(s, Carrier(t) = "i64") : InType(t, v) /\ InType(Carrier(t), v) /\ RangeContains(r, v)}

\* ---- typed access machine (arg_matches.rs try_*) -------------------------
\* store: function id -> [ty, vals] for present ids; valid: set of defined ids
AccessKinds == {"get_one", "get_many", "get_occurrences", "remove_one", "remove_many", "remove_occurrences",
                "contains_id", "get_raw", "clear_id"}
\* returns <<store', result>>; result [k |-> "Unknown" | "Downcast" | "None" | "Some" | "true" | "false", v |-> values]
Access(valid, store, call) ==
  LET id == call.id present == id \in DOMAIN store IN
  IF id \notin valid THEN <<store, [k |-> "Unknown", v |-> <<>>]>>
  ELSE IF call.op = "contains_id" THEN <<store, [k |-> IF present THEN "true" ELSE "false", v |-> <<>>]>>
  ELSE IF call.op = "clear_id" THEN
        <<[i \in DOMAIN store \ {id} |-> store[i]], [k |-> IF present THEN "true" ELSE "false", v |-> <<>>]>>
  ELSE IF ~present THEN <<store, [k |-> "None", v |-> <<>>]>>
  ELSE IF call.op = "get_raw" THEN <<store, [k |-> "Some", v |-> store[id].vals]>>
  ELSE IF store[id].ty # call.ty THEN <<store, [k |-> "Downcast", v |-> <<>>]>>
  ELSE LET vs == store[id].vals
           one == IF vs = <<>> THEN <<>> ELSE <<vs[1]>>
           isRemove == call.op \in {"remove_one", "remove_many", "remove_occurrences"}
           st2 == IF isRemove THEN [i \in DOMAIN store \ {id} |-> store[i]] ELSE store
       IN <<st2, [k |-> "Some", v |-> IF call.op \in {"get_one", "remove_one"} THEN one ELSE vs]>>
=============================================================================
