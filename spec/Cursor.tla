------------------------------- MODULE Cursor ------------------------------
(***************************************************************************)
(* clap_lex RawArgs / ArgCursor (lib.rs 118-262).                          *)
(*  - Idx*: the simple model the property (C14) names: an index into a     *)
(*    growable list, reads clamped to the list.                            *)
(*  - Code*: the arithmetic as written (i64 saturating add, max(0), min    *)
(*    len) over a scaled-down 64-bit range so that saturation is reached.  *)
(* Offsets are symbolic classes resolved against the current length.      *)
(***************************************************************************)
EXTENDS Bytes

I64MAX == 1000000          \* stands for i64::MAX / u64::MAX in the harness
I64MIN == -1000000

OffNames == {"MIN", "-L-1", "-L", "-2", "-1", "0", "1", "2", "L-1", "L", "L+1", "MAX"}
OffVal(name, L) ==
  CASE name = "MIN" -> I64MIN [] name = "-L-1" -> 0 - L - 1 [] name = "-L" -> 0 - L
    [] name = "-2" -> -2 [] name = "-1" -> -1 [] name = "0" -> 0 [] name = "1" -> 1 [] name = "2" -> 2
    [] name = "L-1" -> L - 1 [] name = "L" -> L [] name = "L+1" -> L + 1 [] name = "MAX" -> I64MAX

Clamp(x, lo, hi) == IF x < lo THEN lo ELSE IF x > hi THEN hi ELSE x
SatAdd(a, b) == Clamp(a + b, I64MIN, I64MAX)

\* ---- the simple model --------------------------------------------------
IdxRead(items, cur) == IF cur < Len(items) THEN Some(items[cur + 1]) ELSE None
IdxSeek(items, cur, whence, off) ==
  LET L == Len(items)
      base == CASE whence = "start" -> 0 [] whence = "end" -> L [] whence = "cur" -> cur
  IN Clamp(base + off, 0, L)
IdxInsert(items, cur, xs) ==
  LET c == Min2(cur, Len(items)) IN Slice(items, 0, c) \o xs \o From(items, c)
IdxRemaining(items, cur) == From(items, Min2(cur, Len(items)))

\* ---- the arithmetic as written (RawArgs::seek) --------------------------
CodeSeek(items, cur, whence, off) ==
  LET L == Len(items)
      pos == CASE whence = "start" -> off                       \* u64 as given
               [] whence = "end" -> Max2(SatAdd(L, off), 0)
               [] whence = "cur" -> Max2(SatAdd(cur, off), 0)
  IN Min2(pos, L)

\* an operation: [op, whence, off (name), xs]
\* result: [k |-> "none" | "some" | "list" | "bool" | "unit", v |-> ...]
Apply(items, cur, o) ==   \* <<items', cur', result>>
  CASE o.op = "next" ->
         <<items, cur + 1,
           IF IsSome(IdxRead(items, cur)) THEN [k |-> "some", v |-> <<IdxRead(items, cur).v>>] ELSE [k |-> "none", v |-> <<>>]>>
    [] o.op = "peek" ->
         <<items, cur,
           IF IsSome(IdxRead(items, cur)) THEN [k |-> "some", v |-> <<IdxRead(items, cur).v>>] ELSE [k |-> "none", v |-> <<>>]>>
    [] o.op = "remaining" -> <<items, Len(items), [k |-> "list", v |-> IdxRemaining(items, cur)]>>
    [] o.op = "is_end" -> <<items, cur, [k |-> IF cur >= Len(items) THEN "true" ELSE "false", v |-> <<>>]>>
    [] o.op = "seek" ->
         <<items, CodeSeek(items, cur, o.whence, OffVal(o.off, Len(items))), [k |-> "unit", v |-> <<>>]>>
    [] o.op = "insert" -> <<IdxInsert(items, cur, o.xs), cur, [k |-> "unit", v |-> <<>>]>>
=============================================================================
