----------------------------- MODULE SeekArith -----------------------------
(***************************************************************************)
(* Unbounded side proof (TLAPS) for the seek arithmetic of clap_lex        *)
(* RawArgs::seek as transcribed in Cursor.tla (CodeSeek): for every list   *)
(* length L, cursor, and signed offset within the 64-bit range the result  *)
(* is a position inside 0..L, and whenever the offset arithmetic does not  *)
(* saturate it is the clamped index of the simple model (IdxSeek).         *)
(* TLC checks the same statements for scaled-down ranges in MC_C14; this   *)
(* module removes the bound on L, cur and off.                             *)
(***************************************************************************)
EXTENDS Integers, TLAPS

CONSTANTS I64MAX, I64MIN
ASSUME Range == I64MAX \in Nat /\ I64MIN \in Int /\ I64MIN < 0 /\ I64MAX > 0

Max2(a, b) == IF a >= b THEN a ELSE b
Min2(a, b) == IF a <= b THEN a ELSE b
Clamp(x, lo, hi) == IF x < lo THEN lo ELSE IF x > hi THEN hi ELSE x
SatAdd(a, b) == Clamp(a + b, I64MIN, I64MAX)

\* RawArgs::seek as written: Start(u64) | End(i64) | Current(i64)
CodeSeekStart(L, off) == Min2(off, L)
CodeSeekEnd(L, off) == Min2(Max2(SatAdd(L, off), 0), L)
CodeSeekCur(L, cur, off) == Min2(Max2(SatAdd(cur, off), 0), L)
\* the simple model: an index clamped to the list
IdxSeek(L, base, off) == Clamp(base + off, 0, L)

THEOREM StartInRange == \A L \in Nat, off \in Nat : CodeSeekStart(L, off) \in 0..L /\ CodeSeekStart(L, off) = IdxSeek(L, 0, off)
  BY DEF CodeSeekStart, IdxSeek, Min2, Clamp

THEOREM EndInRange == \A L \in Nat, off \in Int : L <= I64MAX /\ off >= I64MIN /\ off <= I64MAX => CodeSeekEnd(L, off) \in 0..L
  BY Range DEF CodeSeekEnd, SatAdd, Clamp, Min2, Max2

THEOREM CurInRange == \A L \in Nat, cur \in Nat, off \in Int : cur <= I64MAX /\ off >= I64MIN /\ off <= I64MAX => CodeSeekCur(L, cur, off) \in 0..L
  BY Range DEF CodeSeekCur, SatAdd, Clamp, Min2, Max2

\* no saturation in the addition => exactly the simple model
THEOREM EndIsModel == \A L \in Nat, off \in Int :
                         (L + off >= I64MIN /\ L + off <= I64MAX) => CodeSeekEnd(L, off) = IdxSeek(L, L, off)
  BY Range DEF CodeSeekEnd, IdxSeek, SatAdd, Clamp, Min2, Max2

THEOREM CurIsModel == \A L \in Nat, cur \in Nat, off \in Int :
                         (cur + off >= I64MIN /\ cur + off <= I64MAX) => CodeSeekCur(L, cur, off) = IdxSeek(L, cur, off)
  BY Range DEF CodeSeekCur, IdxSeek, SatAdd, Clamp, Min2, Max2

\* saturation itself never changes the clamped result as long as the list is shorter than the range
THEOREM SaturationHarmless == \A L \in Nat, cur \in Nat, off \in Int :
                         (L <= I64MAX /\ cur <= I64MAX /\ off >= I64MIN /\ off <= I64MAX /\ I64MIN <= -I64MAX)
                            => CodeSeekCur(L, cur, off) = IdxSeek(L, cur, off)
  BY Range DEF CodeSeekCur, IdxSeek, SatAdd, Clamp, Min2, Max2
=============================================================================
