------------------------------ MODULE GenTree ------------------------------
(***************************************************************************)
(* C16: ahead-of-time completion generators.                               *)
(*  - the command tree as the generators see it after `cmd.build()`        *)
(*    (help/version flags, the expanded `help` subcommand tree);           *)
(*  - what every script must mention per level;                            *)
(*  - the generated bash function as an automaton (clap_complete           *)
(*    src/aot/shells/bash.rs): the word walk over COMP_WORDS with the      *)
(*    `(parent, word) -> mangled name` table, the `case "${cmd}"` arms in  *)
(*    generation order, `compgen -W` prefix filtering - next to the        *)
(*    *intended* function: the level addressed by the words before the     *)
(*    cursor.                                                              *)
(* A tree node: [name, valiases, opts: Seq([short, long, lvaliases, takes, *)
(*   pvs: Seq([name, hide])]), pos: Seq([id, pvs, required]), subs, hide,  *)
(*   version]                                                              *)
(***************************************************************************)
EXTENDS Bytes

US == 95        \* '_'
DASHB == 45
HELPB == <<104, 101, 108, 112>>

\* ---- the built tree ----------------------------------------------------------
HelpOpt == [short |-> <<104>>, long |-> HELPB, lvaliases |-> <<>>, takes |-> FALSE, pvs |-> <<>>, global |-> FALSE, optional |-> FALSE, hint |-> ""]
VersionOpt == [short |-> <<86>>, long |-> <<118,101,114,115,105,111,110>>, lvaliases |-> <<>>, takes |-> FALSE, pvs |-> <<>>, global |-> FALSE, optional |-> FALSE, hint |-> ""]
RECURSIVE HelpCopy(_)
HelpCopy(t) == [name |-> t.name, valiases |-> <<>>, opts |-> <<>>, pos |-> <<>>, hide |-> t.hide, version |-> FALSE,
                subs |-> [i \in 1..Len(t.subs) |-> HelpCopy(t.subs[i])]]
HelpHelp == [name |-> HELPB, valiases |-> <<>>, opts |-> <<>>, pos |-> <<>>, hide |-> FALSE, version |-> FALSE, subs |-> <<>>]
\* global options are copied into every subcommand that does not define the same long itself (_propagate_global_args);
\* a tree with `nohelpsub` (disable_help_subcommand) gets no generated help subcommand - one it defines itself is ordinary
RECURSIVE BuiltG(_, _, _)
Built(t, inheritedVersion) == BuiltG(t, inheritedVersion, <<>>)
BuiltG(t0, inheritedVersion, gopts) ==
  LET t == [t0 EXCEPT !.opts = @ \o SelectSeq(gopts, LAMBDA g : \A i \in 1..Len(t0.opts) : t0.opts[i].long # g.long)]
      ver == t.version \/ inheritedVersion
      down == SelectSeq(t.opts, LAMBDA o : o.global)
      subs == [i \in 1..Len(t.subs) |-> BuiltG(t.subs[i], FALSE, down)]
      helpSub == [name |-> HELPB, valiases |-> <<>>, opts |-> <<>>, hide |-> FALSE, version |-> FALSE,
                  pos |-> <<>>,      \* (the real one has no positional once the help tree is expanded)
                  subs |-> [i \in 1..Len(t.subs) |-> HelpCopy(t.subs[i])] \o <<HelpHelp>>]
  IN [t EXCEPT !.opts = t.opts \o <<HelpOpt>> \o (IF ver THEN <<VersionOpt>> ELSE <<>>),
               !.subs = IF t.subs = <<>> THEN <<>> ELSE IF t.nohelpsub THEN subs ELSE subs \o <<helpSub>>]

\* ---- what a level offers / must be mentioned ----------------------------------
SubWords(t) == Concat([i \in 1..Len(t.subs) |-> <<t.subs[i].name>> \o t.subs[i].valiases])
OptWords(t) == Concat([i \in 1..Len(t.opts) |-> IF t.opts[i].short # <<>> THEN <<<<DASHB>> \o t.opts[i].short>> ELSE <<>>])
               \o Concat([i \in 1..Len(t.opts) |-> IF t.opts[i].long # <<>>
                                                   THEN [k \in 1..Len(t.opts[i].lvaliases) |-> <<DASHB, DASHB>> \o t.opts[i].lvaliases[k]] \o <<<<DASHB, DASHB>> \o t.opts[i].long>>
                                                   ELSE <<>>])
PosWords(t) == Concat([i \in 1..Len(t.pos) |-> IF t.pos[i].pvs # <<>> THEN [k \in 1..Len(t.pos[i].pvs) |-> t.pos[i].pvs[k].name]
                                                ELSE <<(IF t.pos[i].required THEN <<60>> ELSE <<91>>) \o t.pos[i].id \o (IF t.pos[i].required THEN <<62>> ELSE <<93>>)>>])
\* all_options_for_path: shorts, longs, positional placeholders / values, subcommand names
LevelWords(t) == OptWords(t) \o PosWords(t) \o SubWords(t)
\* what every generator must mention for this level: options, non-hidden possible values, subcommands and visible aliases
MentionsOf(t) ==
  {OptWords(t)[i] : i \in 1..Len(OptWords(t))} \cup {SubWords(t)[i] : i \in 1..Len(SubWords(t))}
  \cup UNION {{t.opts[i].pvs[k].name : k \in {q \in 1..Len(t.opts[i].pvs) : ~t.opts[i].pvs[q].hide}} : i \in 1..Len(t.opts)}
  \cup UNION {{t.pos[i].pvs[k].name : k \in {q \in 1..Len(t.pos[i].pvs) : ~t.pos[i].pvs[q].hide}} : i \in 1..Len(t.pos)}
RECURSIVE AllMentions(_, _, _)
AllMentions(t, depth, maxDepth) ==     \* levels 1..maxDepth (fish: 2), the help subtree excluded (plain names re-used)
  IF depth > maxDepth THEN {}
  ELSE MentionsOf(t) \cup UNION {AllMentions(t.subs[i], depth + 1, maxDepth) : i \in {j \in 1..Len(t.subs) : t.subs[j].name # HELPB}}

\* ---- paths ----------------------------------------------------------------------------
\* the child a word addresses at level t (by name or visible alias): index or 0
ChildIdx(t, w) == IF \E i \in 1..Len(t.subs) : t.subs[i].name = w \/ \E k \in 1..Len(t.subs[i].valiases) : t.subs[i].valiases[k] = w
                  THEN CHOOSE i \in 1..Len(t.subs) : (t.subs[i].name = w \/ \E k \in 1..Len(t.subs[i].valiases) : t.subs[i].valiases[k] = w)
                                                    /\ \A j \in 1..(i - 1) : ~(t.subs[j].name = w \/ \E k \in 1..Len(t.subs[j].valiases) : t.subs[j].valiases[k] = w)
                  ELSE 0
\* intended: the level addressed by the words before the cursor (words that name no subcommand are skipped)
RECURSIVE IntendedLevel(_, _, _)
IntendedLevel(t, words, i) ==
  IF i > Len(words) THEN t
  ELSE LET c == ChildIdx(t, words[i]) IN IF c # 0 THEN IntendedLevel(t.subs[c], words, i + 1) ELSE IntendedLevel(t, words, i + 1)

\* ---- the generated bash function ----------------------------------------------------------
Mangle(n) == Concat([i \in 1..Len(n) |-> IF n[i] = DASHB THEN <<US, US>> ELSE <<n[i]>>])
Join2(a, b) == a \o <<US, US>> \o b
\* every (path of names) of the built tree, root excluded; the unmangled "sc" string of bash.rs is prog__n1__n2
RECURSIVE PathsOf(_, _)
PathsOf(t, prefix) == UNION {{Append(prefix, t.subs[i].name)} \cup PathsOf(t.subs[i], Append(prefix, t.subs[i].name)) : i \in 1..Len(t.subs)}
RECURSIVE NodeAt(_, _, _)
NodeAt(t, path, i) == IF i > Len(path) THEN t ELSE NodeAt(t.subs[ChildIdx(t, path[i])], path, i + 1)
FnName(root, path) == LET F[k \in 0..Len(path)] == IF k = 0 THEN Mangle(root) ELSE Join2(F[k - 1], Mangle(path[k])) IN F[Len(path)]
ScString(root, path) == LET F[k \in 0..Len(path)] == IF k = 0 THEN root ELSE Join2(F[k - 1], path[k]) IN F[Len(path)]

LexLess(a, b) == \E k \in 1..(Len(a) + 1) : (\A j \in 1..(k - 1) : j <= Len(b) /\ a[j] = b[j])
                                            /\ ((k > Len(a) /\ k <= Len(b)) \/ (k <= Len(a) /\ k <= Len(b) /\ a[k] < b[k]))

\* the word walk: cmd is a mangled function name (<<>> before the program name is seen)
RECURSIVE Walk(_, _, _, _, _)
Walk(t, root, words, i, st) ==     \* st = [cmd, path]; path = the path whose mangled name cmd is (first registered)
  IF i > Len(words) THEN st
  ELSE LET w == words[i] IN
       IF w = <<>> THEN Walk(t, root, words, i + 1, st)                 \* unquoted ${COMP_WORDS[@]} drops empty words
       ELSE IF st.cmd = <<>> THEN (IF w = root THEN Walk(t, root, words, i + 1, [cmd |-> Mangle(root), path |-> <<>>, seen |-> TRUE])
                                   ELSE Walk(t, root, words, i + 1, st))
       ELSE \* (parent_fn, word) arms: every path whose parent mangles to cmd and whose last name / visible alias is w
            LET cands == {p \in PathsOf(t, <<>>) : FnName(root, SubSeq(p, 1, Len(p) - 1)) = st.cmd
                                                  /\ ChildIdx(NodeAt(t, SubSeq(p, 1, Len(p) - 1), 1), w) # 0
                                                  /\ NodeAt(t, SubSeq(p, 1, Len(p) - 1), 1).subs[ChildIdx(NodeAt(t, SubSeq(p, 1, Len(p) - 1), 1), w)].name = p[Len(p)]}
            IN IF cands = {} THEN Walk(t, root, words, i + 1, st)
               ELSE LET p == CHOOSE q \in cands : \A r \in cands : r = q \/ LexLess(FnName(root, q), FnName(root, r)) \/ FnName(root, q) = FnName(root, r) IN
                    Walk(t, root, words, i + 1, [cmd |-> FnName(root, p), path |-> p, seen |-> TRUE])
\* the `case "${cmd}"` arms are generated from the sorted, de-duplicated sc strings; the first arm whose mangled pattern
\* equals cmd wins: among the paths that mangle to cmd, the one with the smallest sc string
ArmPath(t, root, cmd) ==
  LET S == {p \in PathsOf(t, <<>>) \cup {<<>>} : FnName(root, p) = cmd} IN
  IF S = {} THEN <<>> ELSE CHOOSE p \in S : \A q \in S : q = p \/ LexLess(ScString(root, p), ScString(root, q))
PrefixFilter(ws, cur) == SelectSeq(ws, LAMBDA w : StartsWith(w, cur))
\* reply of the generated function when the word before the cursor is not a value-taking option
ScriptReply(t, root, words, cur) ==
  LET st == Walk(t, root, words, 1, [cmd |-> <<>>, path |-> <<>>, seen |-> FALSE]) IN
  IF st.cmd = <<>> THEN <<>>
  ELSE PrefixFilter(LevelWords(NodeAt(t, ArmPath(t, root, st.cmd), 1)), cur)
\* intended reply: the level addressed by the words *before* the cursor
IntendedReply(t, before, cur) == PrefixFilter(LevelWords(IntendedLevel(t, before, 1)), cur)

\* restricted to what the property speaks about: `-` words and subcommand names of the intended level
Relevant(t, before, ws) == {ws[i] : i \in {j \in 1..Len(ws) : (ws[j] # <<>> /\ ws[j][1] = DASHB) \/ \E k \in 1..Len(SubWords(IntendedLevel(t, before, 1))) : SubWords(IntendedLevel(t, before, 1))[k] = ws[j]}}

\* ---- recorded witness classes ------------------------------------------------------------------
HasDoubleUnderscoreName(t) == \E p \in PathsOf(t, <<>>) : Contains(p[Len(p)], <<US, US>>)
MangleInjective(t, root) == \A p, q \in PathsOf(t, <<>>) \cup {<<>>} : FnName(root, p) = FnName(root, q) => p = q
CursorNamesSubcommand(t, before, cur) == cur # <<>> /\ ChildIdx(IntendedLevel(t, before, 1), cur) # 0
=============================================================================
