--------------------------- MODULE Trace_Complete ---------------------------
(* impl -> spec for C18: one line = one real call of the completion engine:
   {d, words, i, reused (the Command had already parsed the preceding words), obs: [panicked, err, cands: [value, k, id, hidden]]}. *)
EXTENDS Complete, Json, IOUtils
Defs == ndJsonDeserialize(IOEnv.DEFS)
Rec == ndJsonDeserialize(IOEnv.TRACE)
VARIABLE l
Ref(r) == PrefixLevel(Build(Defs[r.d].cmd, NoInherit), SubSeq(r.words, 1, r.i - 1), 1, 0, -1, 0)
Via(r) == Ref(r).via
Verdict(r) == IF P18R(Defs[r.d].cmd, r.words, r.i, r.obs, r.reused) THEN "ok"
              ELSE IF r.obs.panicked THEN "C18-panic"
              ELSE IF "flagsub" \in Via(r) THEN "C18-candidates#KF-C18-1"
              ELSE IF "infer" \in Via(r) THEN "C18-candidates#KF-C18-2"
              ELSE IF Set(Ref(r).c, "args_conflicts_with_subcommands") /\ Ref(r).st.valid THEN "C18-candidates#KF-C18-3"
              ELSE IF (Set(Ref(r).c, "subcommand_precedence_over_arg") /\ Ref(r).st.ps.k # "done") \/ "precedence" \in Via(r) THEN "C18-candidates#KF-C18-4"
              \* KF-C18-5: the level has the low-index-multiple shape (a multi-value positional followed by one more) and the
              \* preceding word was a positional value: the parser's look-ahead would let a subcommand name follow, the engine
              \* still counts the multi-value positional as collecting and offers no subcommand (only subcommands are missing)
              ELSE IF "lowindex" \in Via(r) THEN "C18-candidates#KF-C18-5"     \* ... and everything below a subcommand entered that way
              ELSE IF LowIndexShape(Ref(r).c) /\ Ref(r).st.valid /\ ~r.obs.panicked
                      /\ (\A j \in 1..Len(r.obs.cands) : CandidateSound(Ref(r).c, Ref(r).st, r.words[r.i], r.obs.cands[j]))
                      /\ (\A m \in MustIds(Ref(r).c, Ref(r).st, r.words[r.i]) :
                             m.k = "command" \/ \E j \in 1..Len(r.obs.cands) : r.obs.cands[j].k = m.k /\ r.obs.cands[j].id = m.id)
                   THEN "C18-candidates#KF-C18-5"
              ELSE "C18-candidates"
Init == l = 1
Next ==
  /\ l <= Len(Rec)
  /\ LET v == Verdict(Rec[l]) IN IF v = "ok" THEN TRUE ELSE PrintT(<<"MISMATCH", l, v>>)
  /\ l' = l + 1
Spec == Init /\ [][Next]_l
AllConsumed == TLCGet("stats").diameter - 1 = Len(Rec)
=============================================================================
