---------------------------- MODULE Trace_Spell ----------------------------
(* impl -> spec for C08: each line holds two real parses of two spellings of one
   intended invocation: {d, a, b, obsA, obsB, same (ArgMatches PartialEq of the two
   real results), amb, noidx (the observations were taken up to argument indices)}.  The property is judged on the two real observations. *)
EXTENDS Props, Json, IOUtils

Defs == ndJsonDeserialize(IOEnv.DEFS)
Rec == ndJsonDeserialize(IOEnv.TRACE)
VARIABLE l

Verdict(r) ==
  LET def == Defs[r.d].cmd IN
  IF r.obsA.outcome = "Panic" \/ r.obsB.outcome = "Panic" THEN "panic"
  ELSE IF r.obsA.outcome = "Ok" /\ ~(ObsEq(r.obsA, r.obsB) /\ ObsEq(r.obsB, r.obsA)) THEN "C08-spellings-differ"
  ELSE IF r.obsA.outcome # r.obsB.outcome THEN "C08-outcome-differs"
  ELSE IF r.obsA.outcome = "Ok" /\ ~r.same THEN "C08-matches-not-equal"
  ELSE IF r.amb /\ r.obsB.outcome # "Err" THEN "C08-ambiguous-prefix-resolved"
  ELSE IF ~ObsEq(r.obsB, IF r.noidx THEN StripIdx(Run(def, r.b)) ELSE Run(def, r.b)) THEN "model"
  ELSE "ok"

Init == l = 1
Next ==
  /\ l <= Len(Rec)
  /\ LET v == Verdict(Rec[l]) IN IF v = "ok" THEN TRUE ELSE PrintT(<<"MISMATCH", l, v>>)
  /\ l' = l + 1
Spec == Init /\ [][Next]_l
AllConsumed == TLCGet("stats").diameter - 1 = Len(Rec)
=============================================================================
