----------------------------- MODULE Trace_C20 -----------------------------
(* impl -> spec: recorded (text, width, plain output, styled output) of the real
   wrappers; the declarative C20 predicates are evaluated on the implementation's
   output, and the output is compared with the transcription. *)
EXTENDS Wrap, TLC, Json, IOUtils

Rec == ndJsonDeserialize(IOEnv.TRACE)
VARIABLE l

Verdict(r) ==
  IF r.panicked THEN "panic"
  ELSE IF r.foreign THEN "property-foreign-output"
  ELSE IF ~P20Plain(r.text, r.w, r.plain) THEN "property-plain"
  ELSE IF ~P20Styled(r.text, r.w, r.styled) THEN "property-styled"
  ELSE IF r.plain # PlainWrap(r.text, r.w) \/ r.styled # StyledWrap(r.text, r.w) THEN "model"
  ELSE "ok"

Init == l = 1
Next ==
  /\ l <= Len(Rec)
  /\ LET v == Verdict(Rec[l]) IN IF v = "ok" THEN TRUE ELSE PrintT(<<"MISMATCH", l, v>>)
  /\ l' = l + 1
Spec == Init /\ [][Next]_l
AllConsumed == TLCGet("stats").diameter - 1 = Len(Rec)
=============================================================================
