---------------------------- MODULE Trace_Parse ----------------------------
(* impl -> spec for the parser core.  Each line is one real parse:
     {d: index into IOEnv.DEFS, argv, obs: the implementation's observation, rendered,
      sugg: what the error message suggests (footer target, did-you-mean names)}
   The declarative predicates of C01-C03, C05-C07, C09, C10 are evaluated on the
   implementation's observation (with the specification's ledger as the grammar's
   attribution); the verdict lists the properties that fail, or "model" when the
   observation merely differs from the specification's. *)
EXTENDS Props, Json, IOUtils

Defs == ndJsonDeserialize(IOEnv.DEFS)
Rec == ndJsonDeserialize(IOEnv.TRACE)
VARIABLE l

Failed(r) ==
  LET def == Defs[r.d].cmd
      top == RunTop(def, r.argv)
      mobs == Run(def, r.argv)
      o == r.obs
      t(b, name) == IF b THEN <<>> ELSE <<name>>
  IN t(P01(def, o, r.rendered), "C01")
     \o t(P02(def, EffArgv(def, r.argv), o, mobs), "C02")
     \o t(P03(def, o), "C03")
     \o t(P05(def, EffArgv(def, r.argv), o, top) /\ P05Err(def, o, top) /\ P05Keep(def, EffArgv(def, r.argv), o, top), "C05")
     \o t(P06(def, o, mobs) /\ P06Supplied(def, o, top), "C06")
     \o t(P07(def, o, top), "C07")
     \o t(P09(def, o, top, mobs), "C09")
     \o (IF P10(def, o, top, mobs, r.sugg) THEN <<>>
         ELSE <<"C10">>)
     \o t(ObsEq(o, mobs) /\ (o.outcome = "Err" /\ ~top.panic => r.sugg.try = ExpectedTry(def, top, o.kind)), "model")

Init == l = 1
Next ==
  /\ l <= Len(Rec)
  /\ LET f == Failed(Rec[l]) IN IF f = <<>> THEN TRUE ELSE PrintT(<<"MISMATCH", l, ToJson(f)>>)
  /\ l' = l + 1
Spec == Init /\ [][Next]_l
AllConsumed == TLCGet("stats").diameter - 1 = Len(Rec)
=============================================================================
