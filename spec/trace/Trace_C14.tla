----------------------------- MODULE Trace_C14 -----------------------------
(* impl -> spec for the cursor and the OS-string helpers. *)
EXTENDS Cursor, TLC, Json, IOUtils

Rec == ndJsonDeserialize(IOEnv.TRACE)
VARIABLE l

\* fold the model over the recorded operations; compare result and the visible
\* state (everything still unread) after every step
RECURSIVE CursorOk(_, _, _, _)
CursorOk(r, items, cur, i) ==
  IF i > Len(r.path) THEN TRUE
  ELSE LET a == Apply(items, cur, r.path[i]) IN
       /\ i <= Len(r.rets)
       /\ r.rets[i] = a[3]
       /\ r.probes[i] = IdxRemaining(a[1], a[2])
       /\ CursorOk(r, a[1], a[2], i + 1)

HelperOk(r) ==
  LET f == Find(r.h, r.n) so == SplitOnce(r.h, r.n) st == StripPrefix(r.h, r.n) IN
  /\ r.find = f
  /\ r.contains = (f >= 0)
  /\ r.starts_with = StartsWith(r.h, r.n)
  /\ r.strip.some = IsSome(st) /\ (IsSome(st) => r.strip.v = st.v)
  /\ r.split_once.some = IsSome(so) /\ (IsSome(so) => r.split_once.a = so.v[1] /\ r.split_once.b = so.v[2])
  /\ r.split = Split(r.h, r.n)

Verdict(r) ==
  IF r.panicked THEN "panic"
  ELSE IF r.t = "cursor" THEN (IF CursorOk(r, [i \in 1..r.n0 |-> i], 0, 1) THEN "ok" ELSE "property")
  ELSE (IF HelperOk(r) THEN "ok" ELSE "property")

Init == l = 1
Next ==
  /\ l <= Len(Rec)
  /\ LET v == Verdict(Rec[l]) IN IF v = "ok" THEN TRUE ELSE PrintT(<<"MISMATCH", l, v>>)
  /\ l' = l + 1
Spec == Init /\ [][Next]_l
AllConsumed == TLCGet("stats").diameter - 1 = Len(Rec)
=============================================================================
