----------------------------- MODULE Trace_C13 -----------------------------
(* impl -> spec: every recorded run of clap_lex on one byte string must be the
   behaviour Lex.tla allows AND satisfy the declarative C13 predicates, which are
   evaluated on the implementation's own observation. *)
EXTENDS Lex, TLC, Json, IOUtils

Rec == ndJsonDeserialize(IOEnv.TRACE)
VARIABLE l

RECURSIVE Walk(_, _, _)
Walk(sf, path, i) ==
  IF i > Len(path) THEN <<>>
  ELSE LET r == ShApply(sf, path[i]) IN <<r[2]>> \o Walk(r[1], path, i + 1)

ModelOk(r) ==
  /\ r.cls = Classify(r.b)
  /\ r.hasSF = IsSome(PA_ToShort(r.b))
  /\ (r.hasSF => r.rets = Walk(ShNew(PA_ToShort(r.b).v), r.path, 1))

PropOk(r) ==
  /\ ClassConsistentObs(r.b, r.cls)
  /\ LongReassemblesObs(r.b, r.cls.to_long)
  /\ ShortRemainderObs(r.b, r.cls.to_short)
  /\ (r.hasSF => Len(r.rets) = Len(r.path) /\ WalkObsOk(Tail(r.b), r.path, r.rets, 1, 0, ValidUpTo(Tail(r.b)) < Len(r.b) - 1))

Verdict(r) ==
  IF r.panicked THEN "panic"
  ELSE IF ~PropOk(r) THEN "property"
  ELSE IF ~ModelOk(r) THEN "model"
  ELSE "ok"

Init == l = 1
Next ==
  /\ l <= Len(Rec)
  /\ LET v == Verdict(Rec[l]) IN IF v = "ok" THEN TRUE ELSE PrintT(<<"MISMATCH", l, v>>)
  /\ l' = l + 1
Spec == Init /\ [][Next]_l
AllConsumed == TLCGet("stats").diameter - 1 = Len(Rec)
=============================================================================
