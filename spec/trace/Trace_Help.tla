----------------------------- MODULE Trace_Help -----------------------------
(* impl -> spec for C12: one line = one real rendering (help error via -h/--help at a
   subcommand path, direct render_help / render_long_help, or render_usage) at one
   terminal width: {d, path, mode, w, obs: [panicked, maxrun, present], level_ok}.
   The C12 predicates of HelpModel.tla are evaluated on it. *)
EXTENDS HelpModel, Parser, Json, IOUtils

Defs == ndJsonDeserialize(IOEnv.DEFS)
Rec == ndJsonDeserialize(IOEnv.TRACE)
VARIABLE l

RECURSIVE Level(_, _, _)
Level(c, p, i) == IF i > Len(p) THEN c
                  ELSE LET si == FindSubcommand(c, p[i]) IN Level(Build(c.subs[SubView(c)[si].i], c.childInh), p, i + 1)

Verdict(r) ==
  LET c == Level(Build(Defs[r.d].cmd, NoInherit), r.path, 1) IN
  IF r.obs.panicked THEN "C12-panic"
  ELSE IF r.mode \in {"tmplA_short", "tmplB_short", "tmplC_short"} THEN (IF P12Template(c, FALSE, r.obs) THEN "ok" ELSE "C12-custom-template")
  ELSE IF r.mode \in {"tmplA_long", "tmplB_long", "tmplC_long"} THEN (IF P12Template(c, TRUE, r.obs) THEN "ok" ELSE "C12-custom-template")
  ELSE IF ~r.level_ok THEN "C12-help-of-wrong-level"
  ELSE IF r.mode \in {"mirror_short", "mirror_long"} THEN (IF P12Mirror(c, r.obs) THEN "ok" ELSE "C12-help-tree-mirror")
  ELSE IF r.mode = "usage" THEN (IF P12Usage(c, r.obs) THEN "ok" ELSE "C12-usage-mentions-hidden")
  ELSE LET useLong == r.mode \in {"long", "direct_long"} IN
       IF r.obs.maxrun > RunBound(c) THEN "C12-unbounded-padding"
       ELSE IF ~(MustAppear(c, useLong) \subseteq PresentPairs(r.obs)) THEN "C12-visible-item-missing"
       ELSE IF ~P12Help(c, useLong, r.obs) THEN "C12-hidden-item-shown"
       ELSE "ok"

Init == l = 1
Next ==
  /\ l <= Len(Rec)
  /\ LET v == Verdict(Rec[l]) IN IF v = "ok" THEN TRUE ELSE PrintT(<<"MISMATCH", l, v>>)
  /\ l' = l + 1
Spec == Init /\ [][Next]_l
AllConsumed == TLCGet("stats").diameter - 1 = Len(Rec)
=============================================================================
