------------------------------ MODULE Trace_Gen ------------------------------
(* impl -> spec for C16.  Lines:
   {d, kind: "generate", shell, panicked, deterministic, missing}    one generator run
   {d, kind: "bash-syntax"}                                           bash -n rejected the script
   {d, kind: "bash-query", before, cur, reply}                        the generated function run in a real bash
   Verdicts name the recorded witness classes (known_findings.json) where one applies. *)
EXTENDS GenTree, Json, IOUtils, TLC
Defs == ndJsonDeserialize(IOEnv.DEFS)
Rec == ndJsonDeserialize(IOEnv.TRACE)
VARIABLE l

RECURSIVE Nodes(_)
Nodes(t) == {t} \cup UNION {Nodes(t.subs[i]) : i \in 1..Len(t.subs)}
PvOfOption(T, tok, optional) == \E n \in Nodes(T) : \E i \in 1..Len(n.opts) : n.opts[i].optional = optional /\ \E k \in 1..Len(n.opts[i].pvs) : n.opts[i].pvs[k].name = tok
PvOfPositional(T, tok) == \E n \in Nodes(T) : \E i \in 1..Len(n.pos) : \E k \in 1..Len(n.pos[i].pvs) : n.pos[i].pvs[k].name = tok
SubAlias(T, tok) == \E n \in Nodes(T) : \E k \in 1..Len(n.valiases) : n.valiases[k] = tok

MissingClass(T, shell, missing) ==
  LET all(P(_)) == \A i \in 1..Len(missing) : P(missing[i]) IN
  IF shell \in {"powershell", "elvish"} /\ all(LAMBDA x : PvOfOption(T, x, TRUE) \/ PvOfOption(T, x, FALSE) \/ PvOfPositional(T, x)) THEN "#KF-C16-4"
  ELSE IF shell = "fish" /\ all(LAMBDA x : PvOfPositional(T, x)) THEN "#KF-C16-5"
  ELSE IF shell = "nushell" /\ all(LAMBDA x : SubAlias(T, x)) THEN "#KF-C16-6"
  ELSE IF shell = "zsh" /\ all(LAMBDA x : PvOfOption(T, x, TRUE)) THEN "#KF-C16-7"
  ELSE ""

Verdict(r) ==
  LET raw == Defs[r.d].tree T == Built(raw, FALSE) root == raw.name IN
  IF r.kind = "generate"
  THEN IF r.panicked THEN (IF r.shell = "bash" /\ HasDoubleUnderscoreName(raw) THEN "C16-generator-panics#KF-C16-1" ELSE "C16-generator-panics")
       ELSE IF ~r.deterministic THEN "C16-nondeterministic"
       ELSE IF r.missing # <<>> THEN "C16-not-mentioned" \o MissingClass(raw, r.shell, r.missing)
       ELSE "ok"
  ELSE IF r.kind = "bash-syntax" THEN "C16-bash-rejects-script"
  ELSE LET words == <<root>> \o r.before \o <<r.cur>>
           real == Relevant(T, r.before, r.reply)
           want == Relevant(T, r.before, IntendedReply(T, r.before, r.cur))
       IN IF real = want THEN (IF r.reply = ScriptReply(T, root, words, r.cur) THEN "ok" ELSE "model")
          ELSE IF ~MangleInjective(T, root) /\ r.reply = ScriptReply(T, root, words, r.cur)
                  /\ Walk(T, root, <<root>> \o r.before, 1, [cmd |-> <<>>, path |-> <<>>, seen |-> FALSE]).cmd
                       # FnName(root, LET RECURSIVE P(_, _, _) P(t, ws, acc) == IF ws = <<>> THEN acc ELSE LET c == ChildIdx(t, Head(ws)) IN IF c # 0 THEN P(t.subs[c], Tail(ws), Append(acc, t.subs[c].name)) ELSE P(t, Tail(ws), acc) IN P(T, r.before, <<>>))
                  THEN "C16-bash-offers#KF-C16-2"
          ELSE IF ~MangleInjective(T, root) /\ \E p, q \in PathsOf(T, <<>>) : p # q /\ FnName(root, p) = FnName(root, q)
                   /\ (IntendedLevel(T, r.before, 1) = NodeAt(T, p, 1) \/ IntendedLevel(T, r.before, 1) = NodeAt(T, q, 1)) THEN "C16-bash-offers#KF-C16-2"
          ELSE IF CursorNamesSubcommand(T, r.before, r.cur) THEN "C16-bash-offers#KF-C16-3"
          ELSE "C16-bash-offers"

Init == l = 1
Next ==
  /\ l <= Len(Rec)
  /\ LET v == Verdict(Rec[l]) IN IF v = "ok" THEN TRUE ELSE PrintT(<<"MISMATCH", l, v>>)
  /\ l' = l + 1
Spec == Init /\ [][Next]_l
AllConsumed == TLCGet("stats").diameter - 1 = Len(Rec)
=============================================================================
