----------------------------- MODULE Trace_Quote -----------------------------
(* impl -> spec for C17: one line = one literal the real generator emitted for descriptive text s in
   one slot of one shell's script: {shell, slot, s, e, panicked, bash_same}.  The shell's lexer automaton
   is run over the *emitted* literal. *)
EXTENDS Quote, Json, IOUtils, TLC
Rec == ndJsonDeserialize(IOEnv.TRACE)
VARIABLE l
Verdict(r) ==
  IF r.panicked THEN "C17-generator-panics"
  ELSE IF ~r.bash_same THEN "C17-bash-script-depends-on-text"
  ELSE LET j == Judge(r.shell, r.slot, r.e) IN
       IF j = "ok" THEN (IF r.e = Emitted(r.shell, r.slot, r.s) THEN "ok" ELSE "model")
       ELSE IF r.shell = "fish" /\ r.slot = "pvhelp" /\ j = "stage2" THEN "C17-text-leaves-its-literal(model-only)#KF-C17-1"
       \* the recorded finding is the escaping as written (no backslash doubling); any other emitted literal that leaks is new
       ELSE IF r.shell = "zsh" /\ r.slot = "poshelp" /\ j = "stage2" /\ r.e = Emitted(r.shell, r.slot, r.s) /\ Contains(r.s, <<BS>>)
            THEN "C17-text-leaves-its-literal(model-only)#KF-C17-2"
       ELSE "C17-text-leaves-its-literal(" \o j \o ")(model-only)"
Init == l = 1
Next ==
  /\ l <= Len(Rec)
  /\ LET v == Verdict(Rec[l]) IN IF v = "ok" THEN TRUE ELSE PrintT(<<"MISMATCH", l, v>>)
  /\ l' = l + 1
Spec == Init /\ [][Next]_l
AllConsumed == TLCGet("stats").diameter - 1 = Len(Rec)
=============================================================================
