----------------------------- MODULE Trace_C04 -----------------------------
(* Judges divergent / recorded C04 observations by the declarative languages:
   lines are {mode, ..., s, got: {k, v, raw_ok, named}} or access steps. *)
EXTENDS Values, TLC, Json, IOUtils

Rec == ndJsonDeserialize(IOEnv.TRACE)
VARIABLE l

Num(str) == LET p == ParseDec(str, TRUE) IN IF IsSome(p) THEN p.v ELSE [neg |-> FALSE, mag |-> <<>>]
Rng(r) == [lk |-> r.lk, lo |-> Num(r.lo), hk |-> r.hk, hi |-> Num(r.hi)]

FAST == <<102, 97, 115, 116>>
QUICK == <<113, 117, 105, 99, 107>>
SLOW == <<83, 108, 111, 119>>
PVs == <<[name |-> FAST, aliases |-> {QUICK}, hide |-> FALSE], [name |-> SLOW, aliases |-> {}, hide |-> TRUE]>>

\* the declarative verdict for one observed (parser, string) -> got
RangedProp(x) ==
  LET vs == RangedLang(x.t, Rng(x.r), x.s) IN
  /\ (x.got.k = "Ok") <=> (vs # {})
  /\ (x.got.k = "Ok" => \A v \in vs : x.got.v = NumStr(v))
  /\ (x.got.k # "Ok" => x.got.k \in {"ValueValidation", "InvalidUtf8", "InvalidValue"})
OtherWant(x) == CASE x.pk = "bool" -> BoolParse(x.s) [] x.pk = "boolish" -> BoolishParse(x.s)
                [] x.pk = "falsey" -> FalseyParse(x.s) [] x.pk = "possible" -> PossibleParse(PVs, x.ic, x.s)
                [] x.pk = "nonempty" -> NonEmptyParse(x.s) [] x.pk = "string" -> StringParse(x.s)
                [] x.pk = "enum" -> EnumParse(PVs, x.ic, x.s) [] x.pk = "pathbuf" -> PathBufParse(x.s) [] OTHER -> OsParse(x.s)
OtherProp(x) ==
  LET want == OtherWant(x)
  IN /\ (x.got.k = "Ok") <=> (want.k = "Ok")
     /\ (x.got.k = "Ok" => x.got.v = want.v)
     /\ (x.got.k # "Ok" => x.got.k \in {"ValueValidation", "InvalidUtf8", "InvalidValue"})

\* access step: a failed access leaves the store unchanged; a read never changes it;
\* a successful removal removes exactly the named id
Failed(r) == r.k \in {"Unknown", "Downcast", "None", "OtherErr"}
AccessProp(x) ==
  /\ (Failed(x.r) => x.after = x.before)
  /\ (x.c.op \in {"get_one", "get_many", "get_occurrences", "contains_id", "get_raw"} => x.after = x.before)
  /\ \A i \in 1..Len(x.after) : x.after[i].id # x.c.id => x.after[i] = x.before[i]

Verdict(x) ==
  IF x.panicked THEN "panic"
  ELSE IF x.mode = "ranged" THEN (IF ~x.got.raw_ok THEN "property-raw" ELSE IF ~x.got.named THEN "property-unnamed"
                                  ELSE IF ~RangedProp(x) THEN "property-language"
                                  ELSE IF [k |-> x.got.k, v |-> x.got.v] = RangedParse(x.t, Rng(x.r), x.s) THEN "ok" ELSE "model")
  ELSE IF x.mode = "other" THEN (IF ~x.got.raw_ok THEN "property-raw" ELSE IF ~x.got.named THEN "property-unnamed"
                                 ELSE IF ~OtherProp(x) THEN "property-language"
                                 ELSE IF x.got.k = "Ok" \/ x.got.k = OtherWant(x).k THEN "ok" ELSE "model")
  ELSE (IF AccessProp(x) THEN "model" ELSE "property-access")

Init == l = 1
Next ==
  /\ l <= Len(Rec)
  /\ LET v == Verdict(Rec[l]) IN IF v = "ok" THEN TRUE ELSE PrintT(<<"MISMATCH", l, v>>)
  /\ l' = l + 1
Spec == Init /\ [][Next]_l
AllConsumed == TLCGet("stats").diameter - 1 = Len(Rec)
=============================================================================
