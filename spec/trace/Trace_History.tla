--------------------------- MODULE Trace_History ---------------------------
(* impl -> spec for C11: one line = one history of public calls on one real Command
   value; every parse step carries the real observation and whether a fresh and a
   cloned definition gave the equal observation and the identical rendered message.
   The history must be a behaviour of History.tla: every parse returns Run(def, argv)
   whatever came before. *)
EXTENDS History, Props, Json, IOUtils

Defs == ndJsonDeserialize(IOEnv.DEFS)
Rec == ndJsonDeserialize(IOEnv.TRACE)
VARIABLE l

\* KF-C11-1 (recorded): Command::build() expands the generated `help` subcommand into a mirror of the command tree; on a
\* definition built explicitly, `help help <sub> ..` walks into that mirror (DisplayHelp) where a fresh one rejects <sub>
ExplicitBuildBefore(r, i) == \E j \in 1..(i - 1) : r.steps[j].k = "build"
HelpHelpWalk(argv) == \E k \in 1..Len(argv) : k + 2 <= Len(argv) /\ argv[k] = HELP /\ argv[k + 1] = HELP
StepVerdict(def, r, i) ==
  LET s == r.steps[i] IN
  IF s.obs.outcome = "Panic" THEN "C11-panic"
  ELSE IF ~s.same_fresh THEN (IF s.k = "parse" /\ ExplicitBuildBefore(r, i) /\ HelpHelpWalk(s.argv) /\ s.same_clone
                              THEN "C11-reused-differs-from-fresh#KF-C11-1" ELSE "C11-reused-differs-from-fresh")
  ELSE IF ~s.same_clone THEN "C11-clone-differs"
  ELSE IF ~s.text_fresh \/ ~s.text_clone THEN "C11-message-differs"
  ELSE IF s.k = "parse" /\ ~ObsEq(s.obs, Run(def, s.argv)) THEN "model"
  ELSE "ok"
Verdict(r) ==
  LET def == Defs[r.d].cmd
      bad == SelectSeq([i \in 1..Len(r.steps) |-> StepVerdict(def, r, i)], LAMBDA v : v # "ok")
      real == SelectSeq(bad, LAMBDA v : v # "model")
      unknown == SelectSeq(real, LAMBDA v : v # "C11-reused-differs-from-fresh#KF-C11-1")
  IN IF unknown # <<>> THEN unknown[1] ELSE IF real # <<>> THEN real[1] ELSE IF bad # <<>> THEN "model" ELSE "ok"

Init == l = 1
Next ==
  /\ l <= Len(Rec)
  /\ LET v == Verdict(Rec[l]) IN IF v = "ok" THEN TRUE ELSE PrintT(<<"MISMATCH", l, v>>)
  /\ l' = l + 1
Spec == Init /\ [][Next]_l
AllConsumed == TLCGet("stats").diameter - 1 = Len(Rec)
=============================================================================
