---------------------------- MODULE Trace_Derive ----------------------------
(* impl -> spec for C15.  Lines (mode "parse"): one argv parsed by the derived type and by its
   generated command: {d, argv, derived (outcome of T::try_parse_from), value, cmd_obs (observation
   of T::command().try_get_matches_from), cmd_value (T::from_arg_matches on those matches), rt_ok}.
   Lines (mode "update"): {d, argv (initial line), upd, before, value (after try_update_from),
   upd_ok, cmd_obs (the update line parsed by command_for_update)}. *)
EXTENDS Derive, Json, IOUtils
Descs == ndJsonDeserialize(IOEnv.DEFS)
Rec == ndJsonDeserialize(IOEnv.TRACE)
VARIABLE l
Verdict(r) ==
  LET desc == Descs[r.d] IN
  IF r.panicked THEN "C15-panic"
  ELSE IF r.mode = "enum" THEN "C15-enum-name-does-not-map-back"
  ELSE IF r.mode = "parse"
  THEN IF (r.derived.outcome = "Ok") # (r.cmd_obs.outcome = "Ok") THEN "C15-parse-iff-command"
       ELSE IF r.cmd_obs.outcome = "Ok" /\ r.value # Extract(desc, r.cmd_obs) THEN "C15-field-differs-from-matches"
       ELSE IF r.cmd_obs.outcome = "Ok" /\ r.cmd_value # r.value THEN "C15-from-arg-matches-differs"
       ELSE IF ~r.rt_ok THEN "C15-round-trip"
       ELSE IF ~ObsEq(r.cmd_obs, Run(DeriveCmd(desc, FALSE), r.argv)) THEN "model"
       ELSE "ok"
  ELSE \* update: only the fields named on the update's command line change
       \* (an update names a subset of the fields: the update command must not insist on the others)
       IF ~r.upd_ok THEN (IF r.cmd_obs.outcome = "Ok"
                          THEN (IF UpdateValue(desc, r.before, r.cmd_obs).ok THEN "C15-update-fails-though-command-accepts" ELSE "ok")
                          ELSE IF r.cmd_obs.kind \in {"MissingRequiredArgument", "MissingSubcommand", "DisplayHelpOnMissingArgumentOrSubcommand"}
                                  /\ Run(DeriveCmd(desc, TRUE), r.upd).outcome = "Ok"
                               THEN "C15-update-requires-a-field-it-does-not-name"
                          ELSE "ok")
       ELSE IF r.cmd_obs.outcome # "Ok" THEN "C15-update-accepts-though-command-rejects"
       ELSE IF ~UpdateValue(desc, r.before, r.cmd_obs).ok THEN "C15-update-accepts-an-incomplete-variant"
       ELSE IF r.value # UpdateValue(desc, r.before, r.cmd_obs).v THEN "C15-update-touches-unnamed-field"
       ELSE "ok"
Init == l = 1
Next ==
  /\ l <= Len(Rec)
  /\ LET v == Verdict(Rec[l]) IN IF v = "ok" THEN TRUE ELSE PrintT(<<"MISMATCH", l, v>>)
  /\ l' = l + 1
Spec == Init /\ [][Next]_l
AllConsumed == TLCGet("stats").diameter - 1 = Len(Rec)
=============================================================================
