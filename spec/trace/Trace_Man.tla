------------------------------ MODULE Trace_Man ------------------------------
(* impl -> spec for C19: one line = one real man page: {md (the definition with its text),
   obs: [panicked, deterministic, controls (request names of every line starting with . or '), present]}. *)
EXTENDS Roff, Json, IOUtils, TLC
Rec == ndJsonDeserialize(IOEnv.TRACE)
VARIABLE l
Verdict(r) ==
  IF r.obs.panicked THEN "C19-panic"
  ELSE IF ~r.obs.deterministic THEN "C19-nondeterministic"
  ELSE IF r.obs.controls # Skeleton(r.md) THEN "C19-control-lines-not-the-generators"
  ELSE IF ~P19(r.md, r.obs) THEN "C19-names"
  ELSE "ok"
Init == l = 1
Next ==
  /\ l <= Len(Rec)
  /\ LET v == Verdict(Rec[l]) IN IF v = "ok" THEN TRUE ELSE PrintT(<<"MISMATCH", l, v>>)
  /\ l' = l + 1
Spec == Init /\ [][Next]_l
AllConsumed == TLCGet("stats").diameter - 1 = Len(Rec)
=============================================================================
