----------------------------- MODULE HelpModel -----------------------------
(***************************************************************************)
(* clap_builder/src/output/help_template.rs (default template):           *)
(* visibility filters, section membership, the column arithmetic of        *)
(* write_args / align_to_about / subcmd with every subtraction a checked   *)
(* site, and Arg's Display (arg.rs stylized / stylize_arg_suffix /         *)
(* render_arg_val) reduced to display widths.  Names are ASCII so a byte   *)
(* is a column.                                                            *)
(***************************************************************************)
EXTENDS ClapDef

TAB_WIDTH == 2
SHORT_SIZE == 4
NEXT_LINE_INDENT == 8

\* should_show_arg (help_template.rs 1092)
ShouldShowArg(useLong, a) ==
  ~a.hide /\ ((~a.hide_long /\ useLong) \/ (~a.hide_short /\ ~useLong) \/ a.nlh)
\* longest_filter (1110)
LongestFilter(a) == TakesValue(a) \/ a.long # <<>> \/ a.short = <<>>

\* ---- display width of `arg.to_string()` -------------------------------------
ValNameWidth(a) == 2 + Len(a.idb)                         \* <id> or [id]
RenderArgValWidth(a) ==
  LET n == IF a.nmin > 1 THEN a.nmin ELSE 1                 \* one value name repeated max(min,1) times
      extra == n < a.nmax \/ (a.positional /\ a.action = "Append")
  IN n * ValNameWidth(a) + (n - 1) + (IF extra THEN 3 ELSE 0)
SuffixWidth(a) ==
  LET optional == a.nmin = 0
      start == IF TakesValue(a) /\ ~a.positional
               THEN (IF a.req_eq THEN (IF optional THEN 2 ELSE 1) ELSE (IF optional THEN 2 ELSE 1)) ELSE 0
      closing == IF TakesValue(a) /\ ~a.positional /\ optional THEN 1 ELSE 0
      body == IF TakesValue(a) \/ a.positional THEN RenderArgValWidth(a)
              ELSE IF a.action = "Count" THEN 3 ELSE 0
  IN start + body + closing
ArgWidth(a) == (IF a.long # <<>> THEN 2 + Len(a.long) ELSE IF a.short # <<>> THEN 2 ELSE 0) + SuffixWidth(a)

\* ---- write_args: longest and the padding of each argument ----------------------
SelfLen(a) == ArgWidth(a) + (IF a.positional THEN 0 ELSE SHORT_SIZE)
MaxOf(S) == IF S = {} THEN 0 ELSE CHOOSE m \in S : \A x \in S : x <= m
Longest(args) == MaxOf({2} \cup {SelfLen(args[i]) : i \in {j \in 1..Len(args) : LongestFilter(args[j])}})
\* align_to_about (566-604) as written after the fix: saturating, at least TAB_WIDTH for non-positionals
RawPad(a, longest) == IF a.positional THEN longest + TAB_WIDTH - SelfLen(a)
                      ELSE longest + (IF a.long # <<>> THEN TAB_WIDTH ELSE TAB_WIDTH + 4) - SelfLen(a)
CodePad(a, longest) == IF a.positional THEN RawPad(a, longest)
                       ELSE (IF RawPad(a, longest) < TAB_WIDTH THEN TAB_WIDTH ELSE RawPad(a, longest))

\* ---- sections of the default template ------------------------------------------------
ShownArgs(c, useLong, positional) == SelectSeq(c.args, LAMBDA a : a.positional = positional /\ ShouldShowArg(useLong, a))
ShownSubs(c) == SelectSeq(SubView(c), LAMBDA s : s.auto \/ ~c.subs[s.i].hide)

\* ---- the checked sites: no subtraction underflows, no padding beyond the column layout -------
PaddingSane(args) ==
  LET L == Longest(args) IN
  \A i \in 1..Len(args) :
     /\ (args[i].positional => RawPad(args[i], L) >= 0)            \* site 597
     /\ CodePad(args[i], L) >= 0 /\ CodePad(args[i], L) <= L + 8    \* site 588 (saturating since the fix)
SubcmdWidth(s) == Len(s.name) + (IF s.short_flag # <<>> THEN 4 ELSE 0) + (IF s.long_flag # <<>> THEN 4 + Len(s.long_flag) ELSE 0)
SubPaddingSane(c) ==
  LET S == ShownSubs(c) L == MaxOf({2} \cup {SubcmdWidth(S[i]) : i \in 1..Len(S)}) IN
  \A i \in 1..Len(S) : L + TAB_WIDTH - SubcmdWidth(S[i]) >= 0            \* site 1038
PossibleValuePaddingSane(a) ==
  LET vis == {i \in 1..Len(a.vp.pvs) : ~a.vp.pv_hide[i]}
      L == MaxOf({Len(a.vp.pvs[i]) : i \in vis}) IN
  \A i \in vis : L - Len(a.vp.pvs[i]) >= 0                                  \* site 690

ArithmeticSane(c) ==
  /\ \A m \in BOOLEAN : PaddingSane(ShownArgs(c, m, TRUE)) /\ PaddingSane(ShownArgs(c, m, FALSE))
  /\ SubPaddingSane(c)
  /\ \A i \in 1..Len(c.args) : PossibleValuePaddingSane(c.args[i])

\* the widest legitimate run of spaces in any rendered line
RunBound(c) ==
  LET all == MaxOf({Longest(ShownArgs(c, m, p)) : m \in BOOLEAN, p \in BOOLEAN})
      subs == MaxOf({2} \cup {SubcmdWidth(ShownSubs(c)[i]) : i \in 1..Len(ShownSubs(c))})
  IN MaxOf({all, subs, NEXT_LINE_INDENT}) + 14

\* ---- what must and must not be mentioned ----------------------------------------------------
ArgToken(a) == IF a.long # <<>> THEN <<45, 45>> \o a.long ELSE IF a.short # <<>> THEN <<45>> \o a.short ELSE a.idb
FirstWord(t) == LET sp == Find(t, <<32>>) IN IF sp < 0 THEN t ELSE Slice(t, 0, sp)
UserArg(a) == a.id \notin {"help", "version"}
MustAppear(c, useLong) ==
  {[sec |-> IF c.args[i].heading # "" THEN c.args[i].heading ELSE IF c.args[i].positional THEN "Arguments" ELSE "Options", tok |-> ArgToken(c.args[i])]
      : i \in {j \in 1..Len(c.args) : UserArg(c.args[j]) /\ ShouldShowArg(useLong, c.args[j])}}
  \cup {[sec |-> "Commands", tok |-> ShownSubs(c)[i].name] : i \in 1..Len(ShownSubs(c))}
\* not listed in the sections of this mode: flag and first help word of every argument the mode does not show
NotListed(c, useLong) ==
  UNION {{ArgToken(c.args[i])} \cup (IF c.args[i].help # <<>> THEN {FirstWord(c.args[i].help)} ELSE {})
           : i \in {j \in 1..Len(c.args) : UserArg(c.args[j]) /\ ~ShouldShowArg(useLong, c.args[j]) /\ Len(ArgToken(c.args[j])) > 2}}
\* nowhere at all (usage line included): hidden subcommands, hidden possible values, optional hidden arguments
MustNotAppear(c, useLong) ==
  {ArgToken(c.args[i]) : i \in {j \in 1..Len(c.args) : UserArg(c.args[j]) /\ c.args[j].hide /\ ~c.args[j].required /\ Len(ArgToken(c.args[j])) > 2}}
  \cup UNION {{c.args[i].vp.pvs[k] : k \in {q \in 1..Len(c.args[i].vp.pvs) : c.args[i].vp.pv_hide[q]}} : i \in 1..Len(c.args)}
  \cup {c.subs[i].name : i \in {j \in 1..Len(c.subs) : c.subs[j].hide}}
\* the usage line: optional hidden arguments are not listed
UsageMustNot(c) ==
  {ArgToken(c.args[i]) : i \in {j \in 1..Len(c.args) : UserArg(c.args[j]) /\ c.args[j].hide /\ ~c.args[j].required /\ Len(ArgToken(c.args[j])) > 2}}
  \cup {c.subs[i].name : i \in {j \in 1..Len(c.subs) : c.subs[j].hide}}

\* ---- C12 on one rendering: obs = [panicked, maxrun, present: set of [sec, tok]] ---------------------
PresentToks(obs) == {obs.present[i].tok : i \in 1..Len(obs.present)}
PresentPairs(obs) == {[sec |-> obs.present[i].sec, tok |-> obs.present[i].tok] : i \in 1..Len(obs.present)}
P12Help(c, useLong, obs) ==
  /\ ~obs.panicked
  /\ obs.maxrun <= RunBound(c)
  /\ MustAppear(c, useLong) \subseteq PresentPairs(obs)
  /\ MustNotAppear(c, useLong) \cap PresentToks(obs) = {}
  /\ \A p \in PresentPairs(obs) : p.sec \notin {"Top", "Usage"} => p.tok \notin NotListed(c, useLong)
\* a custom template (Command::help_template): the statement asks of it only that it renders without panicking or unbounded
\* padding; hidden things are filtered by the same code whatever the template, so they must not appear either
P12Template(c, useLong, obs) ==
  /\ ~obs.panicked
  /\ obs.maxrun <= RunBound(c)
  /\ MustNotAppear(c, useLong) \cap PresentToks(obs) = {}
\* the generated `help` subcommand mirrors the command tree (names and hiddenness only): the mirror of level c lists
\* c's visible subcommands and never names a hidden one
MirrorMust(c) == {[sec |-> "Commands", tok |-> c.subs[i].name] : i \in {j \in 1..Len(c.subs) : ~c.subs[j].hide}}
MirrorNot(c) == {c.subs[i].name : i \in {j \in 1..Len(c.subs) : c.subs[j].hide}}
P12Mirror(c, obs) == ~obs.panicked /\ MirrorMust(c) \subseteq PresentPairs(obs) /\ MirrorNot(c) \cap PresentToks(obs) = {}
P12Usage(c, obs) == ~obs.panicked /\ UsageMustNot(c) \cap PresentToks(obs) = {}
=============================================================================
