//! C11 binding: histories of public calls on one Command value (by-reference entry point),
//! compared step by step with a fresh and a cloned definition.
use crate::parse::{argv_with_bin, load_defs, obs_matches, project_matches};
use crate::util::*;
use clap::Command;
use rand::{rngs::StdRng, Rng, SeedableRng};
use serde_json::{json, Value};
use std::ffi::OsString;

type Parsed = (Value, String, Option<clap::ArgMatches>);
fn obs_text(r: Result<Result<clap::ArgMatches, clap::Error>, String>) -> Parsed {
    match r {
        Err(m) => (json!({"outcome": "Panic", "kind": "", "stderr": false, "exit": 0, "chain": [], "msg": m, "at": last_panic_loc()}), String::new(), None),
        Ok(Ok(m)) => (json!({"outcome": "Ok", "kind": "", "stderr": false, "exit": 0, "chain": project_matches(&m)}), String::new(), Some(m)),
        Ok(Err(e)) => {
            let text = guarded(std::panic::AssertUnwindSafe(|| e.render().to_string())).unwrap_or_else(|m| format!("<render panic {m}>"));
            (json!({"outcome": "Err", "kind": format!("{:?}", e.kind()), "stderr": e.use_stderr(), "exit": e.exit_code(), "chain": []}), text, None)
        }
    }
}
fn parse_mut(c: &mut Command, argv: &[Vec<u8>]) -> Parsed {
    let args: Vec<OsString> = argv.iter().map(|a| os(a)).collect();
    obs_text(guarded(std::panic::AssertUnwindSafe(|| c.try_get_matches_from_mut(args))))
}
fn parse_owned(c: Command, argv: &[Vec<u8>]) -> Parsed {
    let args: Vec<OsString> = argv.iter().map(|a| os(a)).collect();
    obs_text(guarded(std::panic::AssertUnwindSafe(move || c.try_get_matches_from(args))))
}
/// "equal matches": the projected observation and clap's own `ArgMatches ==` (which also compares the stored value types)
fn same(a: &Parsed, b: &Parsed) -> bool {
    a.0 == b.0 && match (&a.2, &b.2) {
        (Some(x), Some(y)) => guarded(std::panic::AssertUnwindSafe(|| x == y)).unwrap_or(false),
        (None, None) => true,
        _ => false,
    }
}

/// run one history; returns the per-step records
pub fn run_history(fresh: &Command, drec: &Value, hist: &[Value]) -> Vec<Value> {
    let _ = fresh;
    let mut reused = crate::def::build_cmd(&drec["cmd"]);
    let mut steps = vec![];
    // C11 requires identical *messages* of fresh, cloned and reused definitions; an explicitly built one only has to
    // agree in matches / error kind (Command::build expands the generated help subcommand into a tree, which changes
    // e.g. the usage line of `help help x`): after an explicit build the message is compared with the clone only
    let mut explicitly_built = false;
    for op in hist {
        let k = op["k"].as_str().unwrap();
        match k {
            "parse" => {
                let argv = argv_with_bin(drec, &op["argv"]);
                let snapshot = reused.clone();
                let p1 = parse_mut(&mut reused, &argv);
                // "fresh": the definition as written (rebuilt from its description, never cloned, never used)
                let p2 = parse_owned(crate::def::build_cmd(&drec["cmd"]), &argv);
                let p3 = parse_owned(snapshot, &argv);
                let (same_fresh, same_clone) = (same(&p1, &p2), same(&p1, &p3));
                let ((o1, t1, _), (_, t2, _), (_, t3, _)) = (p1, p2, p3);
                steps.push(json!({"k": k, "argv": op["argv"], "obs": o1,
                    "same_fresh": same_fresh, "same_clone": same_clone, "text_fresh": explicitly_built || t1 == t2, "text_clone": t1 == t3,
                    "text": if t1 != t2 || t1 != t3 { json!({"reused": t1, "fresh": t2, "clone": t3}) } else { json!({}) }}));
            }
            "build" => {
                explicitly_built = true;
                let r = guarded(std::panic::AssertUnwindSafe(|| reused.build()));
                steps.push(json!({"k": k, "argv": [], "obs": {"outcome": if r.is_ok() { "Ok" } else { "Panic" }, "kind": "", "stderr": false, "exit": 0, "chain": []},
                                  "same_fresh": true, "same_clone": true, "text_fresh": true, "text_clone": true, "text": {}}));
            }
            "render_help" | "render_long_help" | "render_usage" => {
                let r = guarded(std::panic::AssertUnwindSafe(|| match k {
                    "render_help" => reused.render_help().to_string(),
                    "render_long_help" => reused.render_long_help().to_string(),
                    _ => reused.render_usage().to_string(),
                }));
                steps.push(json!({"k": k, "argv": [], "obs": {"outcome": if r.is_ok() { "Ok" } else { "Panic" }, "kind": "", "stderr": false, "exit": 0, "chain": []},
                                  "same_fresh": true, "same_clone": true, "text_fresh": true, "text_clone": true, "text": {}}));
            }
            "clone" => {
                reused = reused.clone();
                steps.push(json!({"k": k, "argv": [], "obs": {"outcome": "Ok", "kind": "", "stderr": false, "exit": 0, "chain": []},
                                  "same_fresh": true, "same_clone": true, "text_fresh": true, "text_clone": true, "text": {}}));
            }
            _ => panic!("op {k}"),
        }
    }
    steps
}

fn steps_ok(steps: &[Value]) -> bool {
    steps.iter().all(|s| s["same_fresh"] == true && s["same_clone"] == true && s["text_fresh"] == true && s["text_clone"] == true && s["obs"]["outcome"] != "Panic")
}
fn trace_line(di: usize, hist: &Value, steps: &[Value]) -> Value {
    // the text bodies stay in the report, the trace spec only needs the flags
    let st: Vec<Value> = steps.iter().map(|s| json!({"k": s["k"], "argv": s["argv"], "obs": {"outcome": s["obs"]["outcome"], "kind": s["obs"]["kind"], "stderr": s["obs"]["stderr"], "exit": s["obs"]["exit"], "chain": s["obs"]["chain"]},
        "same_fresh": s["same_fresh"], "same_clone": s["same_clone"], "text_fresh": s["text_fresh"], "text_clone": s["text_clone"]})).collect();
    json!({"d": di + 1, "hist": hist, "steps": st})
}

pub fn hist_replay(defs: &str, input: &str, out: &str, div: &str) {
    let d = load_defs(defs);
    let mut rep = Report::new();
    let mut dw = NdWriter::create(div);
    for r in read_ndjson(input) {
        rep.n += 1;
        let di = r["d"].as_u64().unwrap() as usize - 1;
        let Ok(cmd) = &d.cmds[di] else { rep.count("gate_rejected", 1); continue };
        let hist = r["hist"].as_array().unwrap();
        let steps = run_history(cmd, &d.recs[di], hist);
        rep.count("steps", steps.len() as u64);
        let model_ok = steps.iter().zip(r["obs"].as_array().unwrap()).all(|(s, w)| s["k"] != "parse" || obs_matches(w, &s["obs"]));
        if !steps_ok(&steps) || !model_ok {
            rep.mismatch(json!({"label": d.recs[di]["label"], "hist": r["hist"], "steps": steps}));
            dw.put(&trace_line(di, &r["hist"], &steps));
        } else if hist.len() >= 3 {
            rep.sample(json!({"def": d.recs[di]["label"], "hist": hist.iter().map(|o| if o["k"] == "parse" { json!(o["argv"].as_array().unwrap().iter().map(|x| String::from_utf8_lossy(&bytes_of(x)).into_owned()).collect::<Vec<_>>()) } else { o["k"].clone() }).collect::<Vec<_>>()}));
        }
    }
    dw.finish();
    rep.write(out);
}

pub fn hist_record(defs: &str, seed: u64, n: usize, maxops: usize, out: &str) {
    let d = load_defs(defs);
    let mut rng = StdRng::seed_from_u64(seed);
    let mut w = NdWriter::create(out);
    let ok: Vec<usize> = (0..d.recs.len()).filter(|i| d.cmds[*i].is_ok()).collect();
    for _ in 0..n {
        let di = ok[rng.gen_range(0..ok.len())];
        let lines = d.recs[di]["lines"].as_array().unwrap();
        let alpha = d.recs[di]["alphabet"].as_array().unwrap();
        let k = rng.gen_range(1..=maxops);
        let mut hist = vec![];
        for _ in 0..k {
            let op = match rng.gen_range(0..12) {
                0 => json!({"k": "build", "argv": []}),
                1 => json!({"k": "render_help", "argv": []}),
                2 => json!({"k": "render_long_help", "argv": []}),
                3 => json!({"k": "render_usage", "argv": []}),
                4 => json!({"k": "clone", "argv": []}),
                5 | 6 => {
                    // a random line over the alphabet
                    let len = rng.gen_range(0..5);
                    let argv: Vec<Value> = (0..len).map(|_| alpha[rng.gen_range(0..alpha.len())].clone()).collect();
                    json!({"k": "parse", "argv": argv})
                }
                _ => json!({"k": "parse", "argv": lines[rng.gen_range(0..lines.len())]}),
            };
            hist.push(op);
        }
        let steps = run_history(d.cmds[di].as_ref().unwrap(), &d.recs[di], &hist);
        w.put(&trace_line(di, &Value::Array(hist), &steps));
    }
    w.finish();
}
