//! C19 binding: clap_mangen::Man on commands built from man-definitions (lib/families.py f_man).
use crate::util::*;
use clap::builder::PossibleValue;
use clap::{Arg, ArgAction, Command};
use serde_json::{json, Value};

fn st(v: &Value) -> String {
    String::from_utf8_lossy(&bytes_of(v)).into_owned()
}
fn build(md: &Value) -> Command {
    let mut c = Command::new(st(&md["name"]));
    if !bytes_of(&md["about"]).is_empty() { c = c.about(st(&md["about"])); }
    if !bytes_of(&md["after_help"]).is_empty() { c = c.after_help(st(&md["after_help"])); }
    if !bytes_of(&md["author"]).is_empty() { c = c.author(st(&md["author"])); }
    if !bytes_of(&md["version"]).is_empty() { c = c.version(st(&md["version"])); }
    if md["no_help_flag"] == true { c = c.disable_help_flag(true); }
    for a in md["args"].as_array().unwrap() {
        let mut x = Arg::new(st(&a["id"]));
        if let Some(ch) = st(&a["short"]).chars().next() { x = x.short(ch); }
        if !bytes_of(&a["long"]).is_empty() { x = x.long(st(&a["long"])); }
        let positional = bytes_of(&a["short"]).is_empty() && bytes_of(&a["long"]).is_empty();
        if !positional {
            x = x.action(if a["takes_value"] == true { ArgAction::Set } else { ArgAction::SetTrue });
        }
        x = x.hide(a["hide"] == true).hide_possible_values(a["hide_pv"] == true);
        if !bytes_of(&a["help"]).is_empty() { x = x.help(st(&a["help"])); }
        if !bytes_of(&a["heading"]).is_empty() { x = x.help_heading(st(&a["heading"])); }
        if !bytes_of(&a["env"]).is_empty() { x = x.env(st(&a["env"])); }
        let pvs: Vec<PossibleValue> = a["pvs"].as_array().unwrap().iter().map(|p| {
            let mut pv = PossibleValue::new(st(&p["name"])).hide(p["hide"] == true);
            if !bytes_of(&p["help"]).is_empty() { pv = pv.help(st(&p["help"])); }
            pv
        }).collect();
        if !pvs.is_empty() { x = x.value_parser(clap::builder::PossibleValuesParser::new(pvs)); }
        c = c.arg(x);
    }
    for s in md["subs"].as_array().unwrap() {
        let mut sc = Command::new(st(&s["name"])).hide(s["hide"] == true);
        if !bytes_of(&s["about"]).is_empty() { sc = sc.about(st(&s["about"])); }
        c = c.subcommand(sc);
    }
    c
}

fn man_of(md: &Value) -> clap_mangen::Man {
    let mut m = clap_mangen::Man::new(build(md));
    if !bytes_of(&md["ov_title"]).is_empty() { m = m.title(st(&md["ov_title"])); }
    if !bytes_of(&md["ov_section"]).is_empty() { m = m.section(st(&md["ov_section"])); }
    if !bytes_of(&md["ov_date"]).is_empty() { m = m.date(st(&md["ov_date"])); }
    if !bytes_of(&md["ov_source"]).is_empty() { m = m.source(st(&md["ov_source"])); }
    if !bytes_of(&md["ov_manual"]).is_empty() { m = m.manual(st(&md["ov_manual"])); }
    m
}

pub fn observe(md: &Value, universe: &[Vec<u8>]) -> Value {
    let md2 = md.clone();
    let r = guarded(std::panic::AssertUnwindSafe(move || {
        let mut a = vec![];
        man_of(&md2).render(&mut a).unwrap();
        let mut b = vec![];
        man_of(&md2).render(&mut b).unwrap();
        (a, b)
    }));
    match r {
        Err(m) => json!({"panicked": true, "deterministic": true, "controls": [], "present": [], "msg": m, "at": last_panic_loc()}),
        Ok((a, b)) => {
            let mut controls = vec![];
            for line in a.split(|c| *c == b'\n') {
                if line.first() == Some(&b'.') || line.first() == Some(&b'\'') {
                    let name: Vec<u8> = line[1..].iter().take_while(|c| **c != b' ').cloned().collect();
                    controls.push(json!(String::from_utf8_lossy(&name).into_owned()));
                }
            }
            let present: Vec<Value> = universe.iter().filter(|t| !t.is_empty() && a.windows(t.len()).any(|w| w == &t[..])).map(|t| jb(t)).collect();
            json!({"panicked": false, "deterministic": a == b, "controls": controls, "present": present})
        }
    }
}

pub fn man_replay(input: &str, out: &str, div: &str) {
    let mut rep = Report::new();
    let mut dw = NdWriter::create(div);
    for r in read_ndjson(input) {
        rep.n += 1;
        let mut uni: Vec<Vec<u8>> = vec![];
        for k in ["must", "mustnot"] { for t in r[k].as_array().unwrap() { uni.push(bytes_of(t)); } }
        let obs = observe(&r["md"], &uni);
        let pres = obs["present"].as_array().unwrap();
        let ok = obs["panicked"] == false && obs["deterministic"] == true && obs["controls"] == r["skeleton"]
            && r["must"].as_array().unwrap().iter().all(|t| pres.contains(t))
            && !r["mustnot"].as_array().unwrap().iter().any(|t| pres.contains(t));
        if !ok {
            rep.mismatch(json!({"d": r["d"], "slot": r["slot"], "s": String::from_utf8_lossy(&bytes_of(&r["s"])).into_owned(), "want": r["skeleton"], "obs": obs}));
            dw.put(&json!({"d": r["d"], "slot": r["slot"], "s": r["s"], "md": r["md"],
                           "obs": {"panicked": obs["panicked"], "deterministic": obs["deterministic"], "controls": obs["controls"], "present": obs["present"]}}));
        } else {
            rep.sample(json!({"slot": r["slot"], "text": String::from_utf8_lossy(&bytes_of(&r["s"])).into_owned(), "control_lines": obs["controls"].as_array().unwrap().len()}));
        }
    }
    dw.finish();
    rep.write(out);
}
