//! C18 binding: the real dynamic completion engine (clap_complete::engine::complete).
use crate::parse::load_defs;
use crate::util::*;
use clap::Command;
use serde_json::{json, Value};
use std::ffi::OsString;

fn split_id(id: Option<&String>) -> (String, Value) {
    match id {
        Some(s) if s.starts_with("arg::") => ("arg".into(), json!(s[5..].to_string())),
        Some(s) if s.starts_with("command::") => ("command".into(), jb(s[9..].as_bytes())),
        _ => ("".into(), json!("")),
    }
}

/// obs = {panicked, err, cands: [{value, k, id, hidden}]}
pub fn complete_obs(cmd: &Command, name: &[u8], words: &Value, i: usize) -> Value {
    complete_obs_on(cmd.clone(), name, words, i)
}
/// the same call on a Command value that has already parsed the words before the cursor (the parser builds lazily:
/// levels it walked through are built, their children are not)
pub fn complete_obs_reused(cmd: &Command, name: &[u8], words: &Value, i: usize, upto: usize) -> Value {
    let mut c = cmd.clone();
    let mut argv: Vec<OsString> = if cmd.is_no_binary_name_set() { vec![] } else { vec![os(name)] };
    for w in words.as_array().unwrap().iter().take(upto.min(i.saturating_sub(1))) {
        argv.push(os(&bytes_of(w)));
    }
    let _ = guarded(std::panic::AssertUnwindSafe(|| { let _ = c.try_get_matches_from_mut(argv); }));
    complete_obs_on(c, name, words, i)
}
fn complete_obs_on(cmd: Command, name: &[u8], words: &Value, i: usize) -> Value {
    let cmd = &cmd;
    // a no_binary_name command is completed without argv[0] (the cursor index shifts with it)
    let (mut args, i): (Vec<OsString>, usize) = if cmd.is_no_binary_name_set() { (vec![], i - 1) } else { (vec![os(name)], i) };
    for w in words.as_array().unwrap() {
        args.push(os(&bytes_of(w)));
    }
    let mut c = cmd.clone();
    let r = guarded(std::panic::AssertUnwindSafe(move || clap_complete::engine::complete(&mut c, args, i, None)));
    match r {
        Err(m) => json!({"panicked": true, "err": false, "cands": [], "msg": m, "at": last_panic_loc()}),
        Ok(Err(_)) => json!({"panicked": false, "err": true, "cands": []}),
        Ok(Ok(cs)) => {
            let cands: Vec<Value> = cs
                .iter()
                .map(|c| {
                    let (k, id) = split_id(c.get_id());
                    json!({"value": jbytes(c.get_value()), "k": k, "id": id, "hidden": c.is_hide_set()})
                })
                .collect();
            json!({"panicked": false, "err": false, "cands": cands})
        }
    }
}

pub fn complete_replay(defs: &str, input: &str, out: &str, div: &str) {
    let d = load_defs(defs);
    let mut rep = Report::new();
    let mut dw = NdWriter::create(div);
    for r in read_ndjson(input) {
        rep.n += 1;
        let di = r["d"].as_u64().unwrap() as usize - 1;
        let Ok(cmd) = &d.cmds[di] else { rep.count("gate_rejected", 1); continue };
        let i = r["i"].as_u64().unwrap() as usize;
        let obs = complete_obs(cmd, &bytes_of(&d.recs[di]["cmd"]["name"]), &r["words"], i);
        let word = bytes_of(&r["words"][i - 1]);
        let cands = obs["cands"].as_array().unwrap();
        let mut ok = obs["panicked"] != true;
        if ok && r["newarg"] == true {
            rep.count("new_arg_positions", 1);
            // completeness: every id the specification requires is represented
            for m in r["must"].as_array().unwrap() {
                if !cands.iter().any(|c| c["k"] == m["k"] && c["id"] == m["id"]) { ok = false; }
            }
            // soundness (cheap part): option / subcommand candidates extend the word; hidden only when nothing visible
            for c in cands {
                if c["k"] != "" && !bytes_of(&c["value"]).starts_with(&word) { ok = false; }
            }
            if cands.iter().any(|c| c["hidden"] == false) && cands.iter().any(|c| c["hidden"] == true) { ok = false; }
            // anything else (wrong level, not accepted by the parser) is decided by the trace spec: send every
            // new-argument observation that offers option/subcommand candidates for judgement in sampled form
            if ok && cands.iter().any(|c| c["k"] != "") { rep.count("with_candidates", 1); }
        }
        let line = json!({"d": di + 1, "words": r["words"], "i": i, "reused": false, "obs": {"panicked": obs["panicked"], "err": obs["err"], "cands": obs["cands"]}});
        // "any command": also one that has already been used for a parse of the preceding words
        // (after a parse of all the preceding words, and after a parse that stopped at the first of them)
        for upto in [usize::MAX, 1] {
        if upto == 1 && i <= 2 { continue; }
        let obs2 = complete_obs_reused(cmd, &bytes_of(&d.recs[di]["cmd"]["name"]), &r["words"], i, upto);
        if obs2["panicked"] != obs["panicked"] || obs2["cands"] != obs["cands"] {
            rep.count("reused_command_differs", 1);
            rep.mismatch(json!({"label": d.recs[di]["label"], "reused": true, "i": i, "obs": obs2, "fresh": obs["cands"],
                                "words": r["words"].as_array().unwrap().iter().map(|w| String::from_utf8_lossy(&bytes_of(w)).into_owned()).collect::<Vec<_>>()}));
            dw.put(&json!({"d": di + 1, "words": r["words"], "i": i, "reused": true, "obs": {"panicked": obs2["panicked"], "err": obs2["err"], "cands": obs2["cands"]}}));
        }
        }
        if !ok {
            rep.mismatch(json!({"label": d.recs[di]["label"], "words": r["words"].as_array().unwrap().iter().map(|w| String::from_utf8_lossy(&bytes_of(w)).into_owned()).collect::<Vec<_>>(), "i": i, "obs": obs, "must": r["must"]}));
            dw.put(&line);
        } else if (r["newarg"] == true || r["helpwalk"] == true) && cands.iter().any(|c| c["k"] != "") {
            // judged by Trace_Complete (soundness against the parser's level); written to the "all" stream
            dw.put(&line);
            rep.sample(json!({"def": d.recs[di]["label"], "words": r["words"].as_array().unwrap().iter().map(|w| String::from_utf8_lossy(&bytes_of(w)).into_owned()).collect::<Vec<_>>(),
                              "candidates": cands.iter().map(|c| String::from_utf8_lossy(&bytes_of(&c["value"])).into_owned()).collect::<Vec<_>>()}));
        }
    }
    dw.finish();
    rep.write(out);
}
