//! vh — the Rust side of the binding between ClapSpec (TLA+) and clap.
//! Every subcommand reads/writes NDJSON or a JSON report; see /verif/DESIGN.md §3.
mod complete;
mod corpus;
mod def;
mod derive;
mod gen;
mod help;
mod hist;
mod lex;
mod man;
mod parse;
mod quote;
mod util;
mod values;
mod wrap;

fn arg(args: &[String], name: &str, default: &str) -> String {
    args.iter()
        .position(|a| a == name)
        .and_then(|i| args.get(i + 1).cloned())
        .unwrap_or_else(|| default.to_string())
}

fn main() {
    let args: Vec<String> = std::env::args().collect();
    util::quiet_panics();
    let sub = args.get(1).map(|s| s.as_str()).unwrap_or("");
    let seed: u64 = arg(&args, "--seed", "1").parse().unwrap();
    let n: usize = arg(&args, "--n", "1000").parse().unwrap();
    let input = arg(&args, "--in", "");
    let out = arg(&args, "--out", "");
    let div = arg(&args, "--div", "/dev/null");
    match sub {
        "c13-replay" => lex::c13_replay(&input, &out),
        "c13-record" => lex::c13_record(
            seed,
            n,
            arg(&args, "--maxlen", "24").parse().unwrap(),
            arg(&args, "--maxcalls", "30").parse().unwrap(),
            &out,
        ),
        "c14-cursor-replay" => lex::c14_cursor_replay(&input, &out),
        "c14-helpers-replay" => lex::c14_helpers_replay(&input, &out),
        "c14-record" => lex::c14_record(seed, n, arg(&args, "--maxops", "20").parse().unwrap(), &out),
        "c04-ranged-replay" => values::c04_ranged_replay(&input, &out, &div),
        "c04-other-replay" => values::c04_other_replay(&input, &out, &div),
        "c04-access-replay" => values::c04_access_replay(&input, &out, &div),
        "gate" => parse::gate(&arg(&args, "--defs", ""), &out),
        "parse-replay" => parse::parse_replay(&arg(&args, "--defs", ""), &input, &out, &div, arg(&args, "--threads", "8").parse().unwrap()),
        "parse-record" => parse::parse_record(&arg(&args, "--defs", ""), seed, n, arg(&args, "--maxlen", "12").parse().unwrap(), &out),
        "spell-replay" => parse::spell_replay(&arg(&args, "--defs", ""), &input, &out, &div),
        "spell-record" => parse::spell_record(&arg(&args, "--defs", ""), seed, n, arg(&args, "--maxelems", "6").parse().unwrap(), &out),
        "hist-replay" => hist::hist_replay(&arg(&args, "--defs", ""), &input, &out, &div),
        "hist-record" => hist::hist_record(&arg(&args, "--defs", ""), seed, n, arg(&args, "--maxops", "40").parse().unwrap(), &out),
        "help-replay" => help::help_replay(&arg(&args, "--defs", ""), &input, &out, &div, &arg(&args, "--widths", "0,1,2,5,8,10,13,20,30,50,100,200")),
        "help-show" => help::help_show(&arg(&args, "--defs", ""), &arg(&args, "--label", ""), &arg(&args, "--path", ""), &arg(&args, "--mode", "short"), arg(&args, "--w", "0").parse().unwrap()),
        "complete-replay" => complete::complete_replay(&arg(&args, "--defs", ""), &input, &out, &div),
        "man-replay" => man::man_replay(&input, &out, &div),
        "gen-replay" => gen::gen_replay(&arg(&args, "--defs", ""), &input, &out, &div, &arg(&args, "--work", "/tmp/vh-gen")),
        "gen-show" => gen::gen_show(&arg(&args, "--defs", ""), &arg(&args, "--label", ""), &arg(&args, "--shell", "bash")),
        "quote-replay" => quote::quote_replay(&input, &out, &div),
        "derive-replay" => derive::derive_replay(&arg(&args, "--defs", ""), &input, &out, &div),
        "c04-record" => values::c04_record(seed, n, &out),
        "c20-replay" => wrap::c20_replay(&input, &out, &div),
        "c20-record" => wrap::c20_record(seed, n, arg(&args, "--maxlen", "120").parse().unwrap(), &out),
        _ => {
            eprintln!("usage: vh <subcommand> [--in f] [--out f] [--seed n] [--n n]");
            std::process::exit(2);
        }
    }
}
