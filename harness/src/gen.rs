//! C16 binding: the six ahead-of-time generators on trees from lib/families.py f_gen, and the
//! generated bash function executed in a real bash.
use crate::util::*;
use clap::builder::{PossibleValue, PossibleValuesParser};
use clap::{Arg, ArgAction, Command};
use clap_complete::aot::{generate, Shell};
use serde_json::{json, Value};
use std::io::Write;

fn st(v: &Value) -> String {
    String::from_utf8_lossy(&bytes_of(v)).into_owned()
}
pub fn build_tree(t: &Value) -> Command {
    let mut c = Command::new(st(&t["name"])).hide(t["hide"] == true);
    for a in t["valiases"].as_array().unwrap() { c = c.visible_alias(st(a)); }
    if t["version"] == true { c = c.version("1.0"); }
    if t["nohelpsub"] == true { c = c.disable_help_subcommand(true); }
    for (i, o) in t["opts"].as_array().unwrap().iter().enumerate() {
        let id = if !bytes_of(&o["long"]).is_empty() { st(&o["long"]) } else { format!("opt{i}") };
        let mut x = Arg::new(id);
        if let Some(ch) = st(&o["short"]).chars().next() { x = x.short(ch); }
        if !bytes_of(&o["long"]).is_empty() { x = x.long(st(&o["long"])); }
        for al in o["lvaliases"].as_array().unwrap() { x = x.visible_alias(st(al)); }
        if o["global"] == true { x = x.global(true); }
        if o["takes"] == true {
            x = x.action(ArgAction::Set);
            if o["optional"] == true { x = x.num_args(0..=1); }
            let pvs: Vec<PossibleValue> = o["pvs"].as_array().unwrap().iter().map(|p| PossibleValue::new(st(&p["name"])).hide(p["hide"] == true)).collect();
            if !pvs.is_empty() { x = x.value_parser(PossibleValuesParser::new(pvs)); }
            match o["hint"].as_str().unwrap_or("") {
                "other" => x = x.value_hint(clap::ValueHint::Other),
                "dir" => x = x.value_hint(clap::ValueHint::DirPath),
                "file" => x = x.value_hint(clap::ValueHint::FilePath),
                _ => {}
            }
        } else {
            x = x.action(ArgAction::SetTrue);
        }
        c = c.arg(x);
    }
    for p in t["pos"].as_array().unwrap() {
        let mut x = Arg::new(st(&p["id"])).required(p["required"] == true);
        let pvs: Vec<PossibleValue> = p["pvs"].as_array().unwrap().iter().map(|q| PossibleValue::new(st(&q["name"])).hide(q["hide"] == true)).collect();
        if !pvs.is_empty() { x = x.value_parser(PossibleValuesParser::new(pvs)); }
        c = c.arg(x);
    }
    for s in t["subs"].as_array().unwrap() { c = c.subcommand(build_tree(s)); }
    c
}

const SHELLS: [&str; 6] = ["bash", "zsh", "fish", "powershell", "elvish", "nushell"];
fn gen_script(tree: &Value, shell: &str) -> Result<Vec<u8>, String> {
    let tree = tree.clone();
    let shell = shell.to_string();
    guarded(std::panic::AssertUnwindSafe(move || {
        let mut cmd = build_tree(&tree);
        let name = st(&tree["name"]);
        let mut buf = vec![];
        match shell.as_str() {
            "bash" => generate(Shell::Bash, &mut cmd, name, &mut buf),
            "zsh" => generate(Shell::Zsh, &mut cmd, name, &mut buf),
            "fish" => generate(Shell::Fish, &mut cmd, name, &mut buf),
            "powershell" => generate(Shell::PowerShell, &mut cmd, name, &mut buf),
            "elvish" => generate(Shell::Elvish, &mut cmd, name, &mut buf),
            _ => generate(clap_complete_nushell::Nushell, &mut cmd, name, &mut buf),
        }
        buf
    }))
}
fn contains(h: &[u8], n: &[u8]) -> bool { !n.is_empty() && h.windows(n.len()).any(|w| w == n) }
fn mentioned(script: &[u8], shell: &str, tok: &[u8]) -> bool {
    if contains(script, tok) { return true; }
    // a short flag `-x` is spelled `-s x` in fish
    if shell == "fish" && tok.len() >= 2 && tok[0] == b'-' && tok[1] != b'-' {
        let mut alt = b"-s ".to_vec();
        alt.extend_from_slice(&tok[1..]);
        return contains(script, &alt);
    }
    // fish and nushell spell a long flag without the dashes (`-l name`) / with them; nushell shows `--name`
    if shell == "fish" && tok.starts_with(b"--") {
        let mut alt = b"-l ".to_vec();
        alt.extend_from_slice(&tok[2..]);
        return contains(script, &alt);
    }
    false
}

fn sq(w: &[u8]) -> String {
    format!("'{}'", String::from_utf8_lossy(w).replace('\'', "'\\''"))
}

/// run all queries of one tree in one real bash process; returns one reply (list of byte strings) per query, or Err
fn run_bash(script: &[u8], root: &str, queries: &[Vec<Vec<u8>>], dir: &str, tag: &str) -> Result<(bool, Vec<Vec<Vec<u8>>>), String> {
    let spath = format!("{dir}/{tag}.bash");
    std::fs::write(&spath, script).map_err(|e| e.to_string())?;
    let syn = std::process::Command::new("bash").arg("-n").arg(&spath).output().map_err(|e| e.to_string())?;
    let mut drv = String::new();
    drv.push_str(&format!("source {spath} 2>/dev/null\n"));
    drv.push_str(&format!("q() {{ COMP_WORDS=(\"$@\"); COMP_CWORD=$((${{#COMP_WORDS[@]}}-1)); COMPREPLY=(); _{root} {root} 2>/dev/null; printf '%s\\037' \"${{COMPREPLY[@]}}\"; printf '\\n'; }}\n"));
    for q in queries {
        drv.push_str("q");
        for w in q { drv.push(' '); drv.push_str(&sq(w)); }
        drv.push('\n');
    }
    let dpath = format!("{dir}/{tag}.driver.sh");
    std::fs::write(&dpath, drv).map_err(|e| e.to_string())?;
    let out = std::process::Command::new("bash").arg("--noprofile").arg("--norc").arg(&dpath).current_dir(dir).output().map_err(|e| e.to_string())?;
    let mut replies = vec![];
    for line in out.stdout.split(|c| *c == b'\n') {
        if replies.len() == queries.len() { break; }
        let items: Vec<Vec<u8>> = line.split(|c| *c == 0x1f).filter(|x| !x.is_empty()).map(|x| x.to_vec()).collect();
        replies.push(items);
    }
    while replies.len() < queries.len() { replies.push(vec![]); }
    Ok((syn.status.success(), replies))
}

pub fn gen_replay(defs: &str, input: &str, out: &str, div: &str, work: &str) {
    let drecs = read_ndjson(defs);
    let recs = read_ndjson(input);
    let mut rep = Report::new();
    let mut dw = NdWriter::create(div);
    std::fs::create_dir_all(work).unwrap();
    for (di, d) in drecs.iter().enumerate() {
        let tree = &d["tree"];
        let root = st(&tree["name"]);
        // 1. all six generators: terminate, deterministic, mention everything
        let ment = recs.iter().find(|r| r["d"].as_u64() == Some(di as u64 + 1) && r.get("mentions").is_some());
        let mut bash_script = None;
        for shell in SHELLS {
            rep.count("generations", 1);
            let (a, b) = (gen_script(tree, shell), gen_script(tree, shell));
            let mut obs = json!({"d": di + 1, "kind": "generate", "shell": shell, "panicked": a.is_err(), "deterministic": true, "missing": []});
            if let (Ok(a), Ok(b)) = (&a, &b) {
                obs["deterministic"] = json!(a == b);
                if let Some(m) = ment {
                    let key = if shell == "fish" { "mentions2" } else { "mentions" };
                    let missing: Vec<Value> = m[key].as_array().unwrap().iter().filter(|t| !mentioned(a, shell, &bytes_of(t))).cloned().collect();
                    obs["missing"] = Value::Array(missing);
                }
                if shell == "bash" { bash_script = Some(a.clone()); }
            } else if let Err(m) = &a {
                obs["msg"] = json!(m);
                obs["at"] = json!(last_panic_loc());
            }
            if obs["panicked"] == true || obs["deterministic"] == false || !obs["missing"].as_array().unwrap().is_empty() {
                rep.mismatch(json!({"label": d["label"], "obs": obs.clone()}));
                dw.put(&obs);
            }
        }
        // 2. the bash function in a real bash
        let qs: Vec<&Value> = recs.iter().filter(|r| r["d"].as_u64() == Some(di as u64 + 1) && r.get("before").is_some()).collect();
        let Some(script) = bash_script else { rep.count("bash_queries_skipped", qs.len() as u64); continue };
        let queries: Vec<Vec<Vec<u8>>> = qs.iter().map(|r| {
            let mut w = vec![root.as_bytes().to_vec()];
            for x in r["before"].as_array().unwrap() { w.push(bytes_of(x)); }
            w.push(bytes_of(&r["cur"]));
            w
        }).collect();
        match run_bash(&script, &root, &queries, work, &format!("t{di}")) {
            Err(m) => rep.mismatch(json!({"label": d["label"], "bash_error": m})),
            Ok((syntax_ok, replies)) => {
                if !syntax_ok {
                    let o = json!({"d": di + 1, "kind": "bash-syntax", "shell": "bash", "panicked": false, "deterministic": true, "missing": []});
                    rep.mismatch(json!({"label": d["label"], "obs": o.clone()}));
                    dw.put(&o);
                }
                for (r, reply) in qs.iter().zip(replies.iter()) {
                    rep.n += 1;
                    let subwords: Vec<Vec<u8>> = r["subwords"].as_array().unwrap().iter().map(bytes_of).collect();
                    let mut relevant: Vec<Vec<u8>> = reply.iter().filter(|w| w.first() == Some(&b'-') || subwords.contains(w)).cloned().collect();
                    relevant.sort();
                    relevant.dedup();
                    let mut intended: Vec<Vec<u8>> = r["intended"].as_array().unwrap().iter().map(bytes_of).collect();
                    intended.sort();
                    let script_model: Vec<Vec<u8>> = r["script"].as_array().unwrap().iter().map(bytes_of).collect();
                    let conforms = *reply == script_model;
                    let holds = relevant == intended;
                    if !conforms { rep.count("script_model_divergences", 1); }
                    if !holds || !conforms {
                        let line = json!({"d": di + 1, "kind": "bash-query", "before": r["before"], "cur": r["cur"],
                                          "reply": reply.iter().map(|w| jb(w)).collect::<Vec<_>>()});
                        if rep.mismatches.len() < 60 {
                            rep.mismatch(json!({"label": d["label"], "before": r["before"].as_array().unwrap().iter().map(st).collect::<Vec<_>>(), "cur": st(&r["cur"]),
                                                "reply": reply.iter().map(|w| String::from_utf8_lossy(w).into_owned()).collect::<Vec<_>>(), "conforms_to_script_model": conforms, "property_holds": holds}));
                        } else { rep.count("mismatch_count", 1); }
                        dw.put(&line);
                    } else if reply.len() > 1 {
                        rep.sample(json!({"tree": d["label"], "words": queries[0].len(), "before": r["before"].as_array().unwrap().iter().map(st).collect::<Vec<_>>(), "cur": st(&r["cur"]),
                                          "COMPREPLY": reply.iter().map(|w| String::from_utf8_lossy(w).into_owned()).collect::<Vec<_>>()}));
                    }
                }
            }
        }
    }
    dw.finish();
    let _ = std::io::stdout().flush();
    rep.write(out);
}

pub fn gen_show(defs: &str, label: &str, shell: &str) {
    for d in read_ndjson(defs) {
        if d["label"] == label {
            match gen_script(&d["tree"], shell) {
                Ok(s) => println!("{}", String::from_utf8_lossy(&s)),
                Err(m) => println!("PANIC {m}"),
            }
        }
    }
}
