//! Shared helpers: byte strings <-> OsString, NDJSON I/O, panic capture.
use serde_json::{json, Value};
use std::ffi::{OsStr, OsString};
use std::io::{BufRead, BufReader, Write};
use std::os::unix::ffi::{OsStrExt, OsStringExt};

pub fn os(b: &[u8]) -> OsString {
    OsString::from_vec(b.to_vec())
}
pub fn bytes_of(v: &Value) -> Vec<u8> {
    v.as_array()
        .map(|a| a.iter().map(|x| x.as_u64().unwrap_or(0) as u8).collect())
        .unwrap_or_default()
}
pub fn jbytes(s: &OsStr) -> Value {
    Value::Array(s.as_bytes().iter().map(|b| json!(*b)).collect())
}
pub fn jb(s: &[u8]) -> Value {
    Value::Array(s.iter().map(|b| json!(*b)).collect())
}
pub fn read_ndjson(path: &str) -> Vec<Value> {
    let f = std::fs::File::open(path).unwrap_or_else(|e| panic!("open {path}: {e}"));
    BufReader::new(f)
        .lines()
        .map(|l| l.unwrap())
        .filter(|l| !l.trim().is_empty())
        .map(|l| serde_json::from_str(&l).unwrap_or_else(|e| panic!("bad json {e}: {l}")))
        .collect()
}
pub struct NdWriter(std::io::BufWriter<std::fs::File>);
impl NdWriter {
    pub fn create(path: &str) -> Self {
        NdWriter(std::io::BufWriter::new(
            std::fs::File::create(path).unwrap_or_else(|e| panic!("create {path}: {e}")),
        ))
    }
    pub fn put(&mut self, v: &Value) {
        serde_json::to_writer(&mut self.0, v).unwrap();
        self.0.write_all(b"\n").unwrap();
    }
    pub fn finish(mut self) {
        self.0.flush().unwrap();
    }
}

/// Run `f`, turning a panic into Err(message). The default panic hook is silenced once.
pub fn guarded<T>(f: impl FnOnce() -> T + std::panic::UnwindSafe) -> Result<T, String> {
    std::panic::catch_unwind(f).map_err(|e| {
        if let Some(s) = e.downcast_ref::<&str>() {
            s.to_string()
        } else if let Some(s) = e.downcast_ref::<String>() {
            s.clone()
        } else {
            "panic".to_string()
        }
    })
}
pub fn quiet_panics() {
    std::panic::set_hook(Box::new(|info| {
        // keep location for diagnosis in a thread local
        let loc = info
            .location()
            .map(|l| format!("{}:{}", l.file(), l.line()))
            .unwrap_or_default();
        if std::env::var_os("VH_DEBUG").is_some() {
            eprintln!("panic: {info}");
        }
        LAST_PANIC_LOC.with(|c| *c.borrow_mut() = loc);
    }));
}
thread_local! {
    pub static LAST_PANIC_LOC: std::cell::RefCell<String> = std::cell::RefCell::new(String::new());
}
pub fn last_panic_loc() -> String {
    LAST_PANIC_LOC.with(|c| c.borrow().clone())
}

/// Summary written by every harness subcommand: counts + mismatch records.
pub struct Report {
    pub n: u64,
    pub mismatches: Vec<Value>,
    pub extra: serde_json::Map<String, Value>,
    pub samples: Vec<Value>,
}
impl Report {
    pub fn new() -> Self {
        Report { n: 0, mismatches: vec![], extra: Default::default(), samples: vec![] }
    }
    pub fn mismatch(&mut self, v: Value) {
        if self.mismatches.len() < 200 {
            self.mismatches.push(v);
        }
        let c = self.extra.entry("mismatch_count").or_insert(json!(0));
        *c = json!(c.as_u64().unwrap() + 1);
    }
    pub fn count(&mut self, key: &str, by: u64) {
        let c = self.extra.entry(key.to_string()).or_insert(json!(0));
        *c = json!(c.as_u64().unwrap() + by);
    }
    pub fn sample(&mut self, v: Value) {
        if self.samples.len() < 5 {
            self.samples.push(v);
        }
    }
    pub fn write(&self, path: &str) {
        let mut m = self.extra.clone();
        m.insert("n".into(), json!(self.n));
        m.insert("mismatches".into(), Value::Array(self.mismatches.clone()));
        m.insert("samples".into(), Value::Array(self.samples.clone()));
        if !m.contains_key("mismatch_count") {
            m.insert("mismatch_count".into(), json!(0));
        }
        std::fs::write(path, serde_json::to_string_pretty(&Value::Object(m)).unwrap()).unwrap();
    }
}
