//! C20 binding: textwrap::wrap and StyledStr::wrap observed through the public help template.
use crate::util::*;
use clap::Command;
use rand::{rngs::StdRng, Rng, SeedableRng};
use serde_json::{json, Value};

const SYMS: [&str; 9] = ["", "a", "b", " ", "\n", "世", "\u{200b}", "\x1b[1m", "\x1b[0m"];
pub const MAXW: u64 = 1_000_000;

pub fn to_text(syms: &[u64]) -> String {
    syms.iter().map(|s| SYMS[*s as usize]).collect()
}
pub fn to_syms(text: &str) -> Option<Vec<u64>> {
    let mut out = vec![];
    let mut rest = text;
    'outer: while !rest.is_empty() {
        for (i, s) in SYMS.iter().enumerate().skip(1) {
            if rest.starts_with(s) {
                out.push(i as u64);
                rest = &rest[s.len()..];
                continue 'outer;
            }
        }
        return None;
    }
    Some(out)
}
fn term_w(w: u64) -> usize {
    if w >= MAXW { 0 } else { w as usize }
}
fn between(s: &str) -> Option<&str> {
    let a = s.find('<')?;
    let b = s.rfind('>')?;
    if b < a { return None; }
    Some(&s[a + 1..b])
}
/// textwrap::wrap(text, w) as `{author}` renders it
pub fn plain_wrap(text: &str, w: u64) -> Result<String, String> {
    let text = text.to_string();
    guarded(move || {
        let mut cmd = Command::new("x").author(text).help_template("<{author}>").term_width(term_w(w));
        let s = cmd.render_help().ansi().to_string();
        between(&s).map(|x| x.to_string()).unwrap_or_else(|| format!("!!{s}"))
    })
}
/// StyledStr::wrap(w) as `{about}` renders it
pub fn styled_wrap(text: &str, w: u64) -> Result<String, String> {
    let text = text.to_string();
    guarded(move || {
        let mut cmd = Command::new("x").about(text).help_template("<{about}>").term_width(term_w(w));
        let s = cmd.render_help().ansi().to_string();
        between(&s).map(|x| x.to_string()).unwrap_or_else(|| format!("!!{s}"))
    })
}
fn obs(f: fn(&str, u64) -> Result<String, String>, text: &str, w: u64) -> Value {
    match f(text, w) {
        Err(m) => json!({"panicked": true, "msg": m, "at": last_panic_loc(), "out": []}),
        Ok(s) => match to_syms(&s) {
            Some(v) => json!({"panicked": false, "out": v}),
            None => json!({"panicked": false, "out": [], "foreign": s}),
        },
    }
}

fn trace_line(syms: &[u64], text: &str, wd: u64) -> Value {
    let p = obs(plain_wrap, text, wd);
    let s = obs(styled_wrap, text, wd);
    json!({"text": syms, "w": wd, "plain": p["out"], "styled": s["out"],
           "panicked": p["panicked"] == true || s["panicked"] == true,
           "foreign": p.get("foreign").is_some() || s.get("foreign").is_some()})
}

pub fn c20_replay(input: &str, out: &str, div: &str) {
    let mut rep = Report::new();
    let mut dw = NdWriter::create(div);
    for rec in read_ndjson(input) {
        rep.n += 1;
        let syms: Vec<u64> = rec["text"].as_array().unwrap().iter().map(|x| x.as_u64().unwrap()).collect();
        let text = to_text(&syms);
        for (mode, f) in [("plain", plain_wrap as fn(&str, u64) -> Result<String, String>), ("styled", styled_wrap)] {
            // an empty about/author renders nothing at all; both sides agree on "" so keep it
            for (w, want) in rec[mode].as_object().unwrap() {
                let wn: u64 = w.parse().unwrap();
                rep.count("evaluations", 1);
                let g = obs(f, &text, wn);
                if g["panicked"] == true || g.get("foreign").is_some() || g["out"] != *want {
                    rep.mismatch(json!({"text": syms, "w": wn, "mode": mode, "want": want, "got": g}));
                    dw.put(&trace_line(&syms, &text, wn));
                } else if wn == 2 {
                    rep.sample(json!({"text": text, "w": wn, "mode": mode, "out": to_text(&g["out"].as_array().unwrap().iter().map(|x| x.as_u64().unwrap()).collect::<Vec<_>>())}));
                }
            }
        }
    }
    dw.finish();
    rep.write(out);
}

pub fn c20_record(seed: u64, n: usize, maxlen: usize, out: &str) {
    let mut rng = StdRng::seed_from_u64(seed);
    let mut w = NdWriter::create(out);
    for _ in 0..n {
        let len = rng.gen_range(0..=maxlen);
        // words of 1..8 letters separated by 1..3 spaces, occasional newlines / indents / escapes
        let mut syms: Vec<u64> = vec![];
        while syms.len() < len {
            match rng.gen_range(0..20) {
                0 => syms.push(4),
                1 => { syms.push(4); for _ in 0..rng.gen_range(0..4) { syms.push(3); } }
                2 => syms.push(7),
                3 => syms.push(8),
                4 => syms.push(5),
                5 => syms.push(6),
                6..=9 => for _ in 0..rng.gen_range(1..4) { syms.push(3); },
                _ => for _ in 0..rng.gen_range(1..9) { syms.push(rng.gen_range(1..3)); },
            }
        }
        let text = to_text(&syms);
        let wd = match rng.gen_range(0..10) { 0 => MAXW, 1 => 1, _ => rng.gen_range(1..60) };
        w.put(&trace_line(&syms, &text, wd));
    }
    w.finish();
}
