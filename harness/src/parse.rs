//! Running the real parser and projecting the result to the shared observation `Obs`.
use crate::def::build_def;
use crate::util::*;
use clap::parser::ValueSource;
use clap::{ArgMatches, Command};
use rand::{rngs::StdRng, Rng, SeedableRng};
use serde_json::{json, Value};
use std::ffi::OsString;
use std::sync::atomic::{AtomicU64, Ordering};
use std::sync::{Arc, Mutex};

pub fn project_matches(m: &ArgMatches) -> Value {
    let mut chain = vec![];
    let mut cur = Some(m);
    while let Some(m) = cur {
        let mut args: Vec<Value> = vec![];
        for id in m.ids() {
            let ids = id.as_str();
            // fill_in_global_values also hands a level the globals of deeper levels; such an id is
            // listed by ids() but every accessor rejects it at this level - it is not observable
            if m.try_contains_id(ids).is_err() {
                continue;
            }
            let src = match m.value_source(ids) {
                Some(ValueSource::CommandLine) => "cli",
                Some(ValueSource::EnvVariable) => "env",
                Some(ValueSource::DefaultValue) => "def",
                _ => "none",
            };
            let idx: Vec<usize> = m.indices_of(ids).map(|i| i.collect()).unwrap_or_default();
            let occ: Vec<Value> = m
                .get_raw_occurrences(ids)
                .map(|o| o.map(|g| Value::Array(g.map(jbytes).collect())).collect())
                .unwrap_or_default();
            args.push(json!({"id": ids, "src": src, "idx": idx, "occ": occ}));
        }
        args.sort_by(|a, b| a["id"].as_str().unwrap().cmp(b["id"].as_str().unwrap()));
        let (sub, next) = match m.subcommand() {
            Some((n, sm)) => (jb(n.as_bytes()), Some(sm)),
            None => (json!([]), None),
        };
        chain.push(json!({"args": args, "sub": sub, "has_sub": next.is_some()}));
        cur = next;
    }
    Value::Array(chain)
}

pub fn no_suggestions() -> Value {
    json!({"try": [], "args": [], "subs": [], "vals": [], "subflag": [], "ddsub": []})
}

/// everything an error message suggests: the "For more information, try 'X'." footer (from the rendered
/// text) and the did-you-mean context (SuggestedArg / SuggestedSubcommand / SuggestedValue / free-form tips)
pub fn suggestions(e: &clap::Error) -> Value {
    use clap::error::{ContextKind, ContextValue};
    let text = e.render().to_string();
    let quoted = |t: &str, pre: &str, post: &str| -> Option<String> {
        let i = t.find(pre)? + pre.len();
        let j = t[i..].find(post)? + i;
        Some(t[i..j].to_string())
    };
    let b = |x: &str| jb(x.as_bytes());
    let mut out = no_suggestions();
    if let Some(x) = quoted(&text, "For more information, try '", "'.") {
        out["try"] = b(&x);
    }
    let strings = |v: &ContextValue| -> Vec<String> {
        match v {
            ContextValue::String(x) => vec![x.clone()],
            ContextValue::Strings(xs) => xs.clone(),
            ContextValue::StyledStr(x) => vec![x.to_string()],
            ContextValue::StyledStrs(xs) => xs.iter().map(|x| x.to_string()).collect(),
            _ => vec![],
        }
    };
    for (k, v) in e.context() {
        let xs = strings(v);
        match k {
            ContextKind::SuggestedArg => out["args"].as_array_mut().unwrap().extend(xs.iter().map(|x| b(x))),
            ContextKind::SuggestedSubcommand => out["subs"].as_array_mut().unwrap().extend(xs.iter().map(|x| b(x))),
            ContextKind::SuggestedValue => out["vals"].as_array_mut().unwrap().extend(xs.iter().map(|x| b(x))),
            ContextKind::Suggested => {
                for x in xs {
                    if let Some(sf) = quoted(&x, "'", "' exists") {
                        if !x.starts_with("subcommand ") {
                            let mut it = sf.splitn(2, ' ');
                            let (sub, flag) = (it.next().unwrap_or(""), it.next().unwrap_or(""));
                            out["subflag"].as_array_mut().unwrap().push(json!({"sub": b(sub), "flag": b(flag)}));
                        }
                    }
                    if let Some(sub) = quoted(&x, "subcommand '", "' exists") {
                        out["ddsub"].as_array_mut().unwrap().push(b(&sub));
                    }
                }
            }
            _ => {}
        }
    }
    out
}

pub fn run(cmd: &Command, argv: &[Vec<u8>], by_ref: Option<&mut Command>) -> Value {
    let args: Vec<OsString> = argv.iter().map(|a| os(a)).collect();
    let r = match by_ref {
        Some(c) => guarded(std::panic::AssertUnwindSafe(|| c.try_get_matches_from_mut(args))),
        None => {
            let c = cmd.clone();
            guarded(std::panic::AssertUnwindSafe(move || c.try_get_matches_from(args)))
        }
    };
    match r {
        Err(msg) => json!({"outcome": "Panic", "kind": "", "stderr": false, "exit": 0, "rendered": false, "chain": [],
                           "msg": msg, "at": last_panic_loc(), "sugg": no_suggestions()}),
        Ok(Ok(m)) => json!({"outcome": "Ok", "kind": "", "stderr": false, "exit": 0, "rendered": true, "chain": project_matches(&m),
                            "sugg": no_suggestions()}),
        Ok(Err(e)) => {
            let rendered = guarded(std::panic::AssertUnwindSafe(|| {
                let a = e.render().to_string();
                let b = e.to_string();
                !a.is_empty() || !b.is_empty() || true
            }))
            .unwrap_or(false);
            let sugg = guarded(std::panic::AssertUnwindSafe(|| suggestions(&e))).unwrap_or_else(|_| no_suggestions());
            json!({"outcome": "Err", "kind": format!("{:?}", e.kind()), "stderr": e.use_stderr(), "exit": e.exit_code(),
                   "rendered": rendered, "chain": [], "sugg": sugg})
        }
    }
}

/// model observation vs real one: argument order inside a level is not part of the observation,
/// and a model kind "A|B" allows either (Jaro-threshold dependent classification)
pub fn obs_matches(want: &Value, got: &Value) -> bool {
    let norm = |o: &Value| -> Value {
        let mut o = obs_core(o);
        if let Some(ch) = o["chain"].as_array_mut() {
            for lv in ch.iter_mut() {
                if let Some(a) = lv["args"].as_array_mut() {
                    a.sort_by(|x, y| x["id"].as_str().unwrap_or("").cmp(y["id"].as_str().unwrap_or("")));
                }
            }
        }
        o
    };
    let (mut w, g) = (norm(want), norm(got));
    if let Some(k) = w["kind"].as_str() {
        if k.contains('|') && k.split('|').any(|x| Some(x) == g["kind"].as_str()) {
            w["kind"] = g["kind"].clone();
        }
    }
    w == g
}

pub fn obs_core(o: &Value) -> Value {
    json!({"outcome": o["outcome"], "kind": o["kind"], "stderr": o["stderr"], "exit": o["exit"], "chain": o["chain"]})
}

pub struct Defs {
    pub recs: Vec<Value>,
    pub cmds: Vec<Result<Command, String>>,
}
pub fn load_defs(path: &str) -> Defs {
    let recs = read_ndjson(path);
    let cmds = recs.iter().map(build_def).collect();
    Defs { recs, cmds }
}
pub fn argv_with_bin(d: &Value, argv: &Value) -> Vec<Vec<u8>> {
    // argv[0] is the command's name, unless the definition itself interprets the first word (multicall) or none (no_binary_name)
    let s = &d["cmd"]["s"];
    let raw = s["multicall"].as_bool().unwrap_or(false) || s["no_binary_name"].as_bool().unwrap_or(false);
    let mut v = if raw { vec![] } else { vec![bytes_of(&d["cmd"]["name"])] };
    for a in argv.as_array().unwrap() {
        v.push(bytes_of(a));
    }
    v
}

/// gate: which definitions does the real validity gate accept
pub fn gate(defs: &str, out: &str) {
    // each definition is built on its own thread: a build that does not return within 20 s is reported as hung
    // (the thread is abandoned; the process exits explicitly at the end)
    let recs = read_ndjson(defs);
    let mut w = NdWriter::create(out);
    let mut rej = 0;
    let mut hung: Vec<Value> = vec![];
    for r in &recs {
        let (tx, rx) = std::sync::mpsc::channel();
        let rc = r.clone();
        std::thread::spawn(move || {
            quiet_panics();
            let _ = tx.send(build_def(&rc));
        });
        match rx.recv_timeout(std::time::Duration::from_secs(20)) {
            Ok(Ok(_)) => w.put(r),
            Ok(Err(m)) => {
                rej += 1;
                if rej <= 5 {
                    eprintln!("gate rejects {}: {}", r["label"], m.lines().next().unwrap_or(""));
                }
            }
            Err(_) => hung.push(r["label"].clone()),
        }
    }
    w.finish();
    println!("{}", json!({"accepted": recs.len() - rej - hung.len(), "rejected": rej, "hung": hung}));
    use std::io::Write as _;
    let _ = std::io::stdout().flush();
    std::process::exit(0);
}

/// spec -> impl: replay TLC-emitted (d, argv, obs) records; divergent ones go to `div` as trace lines
pub fn parse_replay(defs: &str, input: &str, out: &str, div: &str, threads: usize) {
    let d = Arc::new(load_defs(defs));
    // the input is streamed (the thorough tier replays tens of millions of lines): each worker pulls the next line
    use std::io::BufRead as _;
    let lines = Arc::new(Mutex::new(std::io::BufReader::new(std::fs::File::open(input).unwrap_or_else(|e| panic!("open {input}: {e}"))).lines()));
    let done = Arc::new(std::sync::atomic::AtomicBool::new(false));
    let rep = Arc::new(Mutex::new(Report::new()));
    let dw = Arc::new(Mutex::new(NdWriter::create(div)));
    let progress = Arc::new(AtomicU64::new(0));
    let current: Arc<Mutex<Vec<String>>> = Arc::new(Mutex::new(vec![String::new(); threads]));
    // watchdog: no progress for 30 s => report the cases in flight as hangs and give up
    {
        let (progress, current, done) = (progress.clone(), current.clone(), done.clone());
        std::thread::spawn(move || {
            let mut last = 0;
            let mut idle = 0;
            loop {
                std::thread::sleep(std::time::Duration::from_secs(1));
                let p = progress.load(Ordering::Relaxed);
                if done.load(Ordering::Relaxed) { return; }
                if p == last { idle += 1 } else { idle = 0; last = p; }
                if idle >= 30 {
                    println!("HANG {}", current.lock().unwrap().join(" | "));
                    std::process::exit(3);
                }
            }
        });
    }
    let mut hs = vec![];
    for t in 0..threads {
        let (d, lines, rep, dw, progress, current) = (d.clone(), lines.clone(), rep.clone(), dw.clone(), progress.clone(), current.clone());
        hs.push(std::thread::spawn(move || {
            quiet_panics();
            let mut local = Report::new();
            let mut divs = vec![];
            loop {
                let line = { lines.lock().unwrap().next() };
                let Some(Ok(line)) = line else { break };
                if line.trim().is_empty() { continue; }
                let r: Value = serde_json::from_str(&line).unwrap_or_else(|e| panic!("replay line: {e}"));
                let r = &r;
                let di = r["d"].as_u64().unwrap() as usize - 1;
                local.n += 1;
                let cmd = match &d.cmds[di] {
                    Ok(c) => c,
                    Err(_) => { local.count("gate_rejected", 1); continue; }
                };
                current.lock().unwrap()[t] = format!("d={} argv={}", di + 1, r["argv"]);
                let argv = argv_with_bin(&d.recs[di], &r["argv"]);
                let o = run(cmd, &argv, None);
                progress.fetch_add(1, Ordering::Relaxed);
                // the footer target is part of the comparison; a line whose message carries a did-you-mean
                // suggestion always goes to the judge (the model does not predict the similarity measure)
                let sg = &o["sugg"];
                let try_ok = o["outcome"] != "Err" || r.get("try").map(|t| *t == sg["try"]).unwrap_or(true);
                let dym = ["args", "subs", "vals", "subflag", "ddsub"].iter().any(|k| sg[*k].as_array().map(|a| !a.is_empty()).unwrap_or(false));
                let same = obs_matches(&r["obs"], &o) && try_ok;
                if !same || dym {
                    if !same {
                        local.mismatch(json!({"d": di + 1, "label": d.recs[di]["label"], "argv": r["argv"], "want": obs_core(&r["obs"]), "want_try": r.get("try").cloned().unwrap_or(json!(null)), "got": o}));
                    } else {
                        local.count("suggestions_judged", 1);
                    }
                    divs.push(json!({"d": di + 1, "argv": r["argv"], "obs": obs_core(&o), "rendered": o["rendered"], "sugg": o["sugg"], "tag": r.get("tag").cloned().unwrap_or(json!(""))}));
                } else if local.samples.len() < 2 && r["argv"].as_array().unwrap().len() >= 2 {
                    local.sample(json!({"def": d.recs[di]["label"], "argv": r["argv"].as_array().unwrap().iter().map(|a| String::from_utf8_lossy(&bytes_of(a)).into_owned()).collect::<Vec<_>>(), "obs": obs_core(&o)}));
                }
            }
            let mut g = rep.lock().unwrap();
            g.n += local.n;
            for m in local.mismatches { g.mismatch(m); }
            let extra_mc = local.extra.get("mismatch_count").and_then(|x| x.as_u64()).unwrap_or(0);
            let have = g.extra.get("mismatch_count").and_then(|x| x.as_u64()).unwrap_or(0);
            // mismatch() above already counted the kept ones; add the overflow
            let kept = g.mismatches.len() as u64;
            let _ = (extra_mc, have, kept);
            for (k, v) in local.extra { if k != "mismatch_count" { g.count(&k, v.as_u64().unwrap_or(0)); } }
            for s in local.samples { g.sample(s); }
            let mut w = dw.lock().unwrap();
            for l in divs { w.put(&l); }
        }));
    }
    for h in hs { h.join().unwrap(); }
    done.store(true, Ordering::Relaxed);
    let rep = Arc::try_unwrap(rep).ok().unwrap().into_inner().unwrap();
    Arc::try_unwrap(dw).ok().unwrap().into_inner().unwrap().finish();
    rep.write(out);
}

/// impl -> spec: random argv (alphabet tokens mixed with random bytes) against every accepted definition
pub fn parse_record(defs: &str, seed: u64, n: usize, maxlen: usize, out: &str) {
    let d = load_defs(defs);
    let mut rng = StdRng::seed_from_u64(seed);
    let mut w = NdWriter::create(out);
    let ok: Vec<usize> = (0..d.recs.len()).filter(|i| d.cmds[*i].is_ok()).collect();
    for _ in 0..n {
        let di = ok[rng.gen_range(0..ok.len())];
        let alpha = d.recs[di]["alphabet"].as_array().unwrap();
        let len = rng.gen_range(0..=maxlen);
        let mut argv: Vec<Value> = vec![];
        for _ in 0..len {
            if rng.gen_bool(0.9) || alpha.is_empty() {
                argv.push(alpha[rng.gen_range(0..alpha.len())].clone());
            } else {
                argv.push(jb(&crate::lex::rand_bytes(&mut rng, 6)));
            }
        }
        let argv = Value::Array(argv);
        let o = run(d.cmds[di].as_ref().unwrap(), &argv_with_bin(&d.recs[di], &argv), None);
        w.put(&json!({"d": di + 1, "argv": argv, "obs": obs_core(&o), "rendered": o["rendered"], "sugg": o["sugg"], "tag": ""}));
    }
    w.finish();
}

// ------------------------------------------------------------------ C08: pairs of spellings
/// `noidx`: the two spellings are documented to agree up to argument indices (a short flag subcommand inside a group of
/// short flags hands its position on to the subcommand's parser, a detached one starts counting afresh)
fn strip_idx(o: &Value) -> Value {
    let mut o = obs_core(o);
    if let Some(ch) = o["chain"].as_array_mut() {
        for lv in ch.iter_mut() {
            if let Some(args) = lv["args"].as_array_mut() {
                for a in args.iter_mut() { a["idx"] = json!([]); }
            }
        }
    }
    o
}
fn spell_line(cmd: &Command, d: &Value, di: usize, a: &Value, b: &Value, amb: bool, noidx: bool) -> Value {
    let (aa, bb) = (argv_with_bin(d, a), argv_with_bin(d, b));
    let oa = run(cmd, &aa, None);
    let ob = run(cmd, &bb, None);
    // the two real ArgMatches compared with clap's own PartialEq
    let same = {
        let (c1, c2) = (cmd.clone(), cmd.clone());
        let (x, y) = (aa.iter().map(|v| os(v)).collect::<Vec<_>>(), bb.iter().map(|v| os(v)).collect::<Vec<_>>());
        guarded(std::panic::AssertUnwindSafe(move || match (c1.try_get_matches_from(x), c2.try_get_matches_from(y)) {
            (Ok(m1), Ok(m2)) => m1 == m2,
            (Err(e1), Err(e2)) => e1.kind() == e2.kind(),
            _ => false,
        }))
        .unwrap_or(false)
    };
    let (oa, ob) = if noidx { (strip_idx(&oa), strip_idx(&ob)) } else { (obs_core(&oa), obs_core(&ob)) };
    json!({"d": di + 1, "a": a, "b": b, "obsA": oa, "obsB": ob, "same": same || noidx, "amb": amb, "noidx": noidx})
}

pub fn spell_replay(defs: &str, input: &str, out: &str, div: &str) {
    let d = load_defs(defs);
    let mut rep = Report::new();
    let mut dw = NdWriter::create(div);
    for r in read_ndjson(input) {
        rep.n += 1;
        let di = r["d"].as_u64().unwrap() as usize - 1;
        let Ok(cmd) = &d.cmds[di] else { rep.count("gate_rejected", 1); continue };
        let amb = r["amb"].as_bool().unwrap_or(false);
        let noidx = r["noidx"].as_bool().unwrap_or(false);
        let line = spell_line(cmd, &d.recs[di], di, &r["a"], &r["b"], amb, noidx);
        let a_ok = line["obsA"]["outcome"] == "Ok";
        let want = if noidx { strip_idx(&r["obs"]) } else { r["obs"].clone() };
        let r_obs = &want;
        let ok = obs_matches(r_obs, &line["obsB"]) && (!a_ok || (obs_matches(r_obs, &line["obsA"]) && line["same"] == true))
            && !(amb && line["obsB"]["outcome"] != "Err");
        if !ok {
            rep.mismatch(json!({"label": d.recs[di]["label"], "line": line, "want": obs_core(&r["obs"])}));
            dw.put(&line);
        } else if r["a"] != r["b"] {
            rep.sample(json!({"def": d.recs[di]["label"],
                "a": r["a"].as_array().unwrap().iter().map(|x| String::from_utf8_lossy(&bytes_of(x)).into_owned()).collect::<Vec<_>>(),
                "b": r["b"].as_array().unwrap().iter().map(|x| String::from_utf8_lossy(&bytes_of(x)).into_owned()).collect::<Vec<_>>()}));
        }
    }
    dw.finish();
    rep.write(out);
}

/// random intents: longer element sequences than TLC explores, every element in a random spelling
pub fn spell_record(defs: &str, seed: u64, n: usize, maxelems: usize, out: &str) {
    let d = load_defs(defs);
    let mut rng = StdRng::seed_from_u64(seed);
    let mut w = NdWriter::create(out);
    let ok: Vec<usize> = (0..d.recs.len()).filter(|i| d.cmds[*i].is_ok()).collect();
    for _ in 0..n {
        let di = ok[rng.gen_range(0..ok.len())];
        let els = d.recs[di]["elements"].as_array().unwrap();
        if els.is_empty() { continue; }
        let k = rng.gen_range(1..=maxelems);
        let (mut a, mut b, mut amb, mut noidx) = (vec![], vec![], false, false);
        for _ in 0..k {
            let e = &els[rng.gen_range(0..els.len())];
            let sp = e["sp"].as_array().unwrap();
            a.extend(sp[0].as_array().unwrap().iter().cloned());
            b.extend(sp[rng.gen_range(0..sp.len())].as_array().unwrap().iter().cloned());
            amb = amb || e["amb"] == true;
            noidx = noidx || e["noidx"] == true;
            if e["last"] == true { break; }
        }
        w.put(&spell_line(d.cmds[di].as_ref().unwrap(), &d.recs[di], di, &Value::Array(a), &Value::Array(b), amb, noidx));
    }
    w.finish();
}
