//! Def (shared JSON vocabulary, lib/families.py) -> clap::Command, through the public builder API only.
use crate::util::*;
use clap::builder::{ArgPredicate, PossibleValuesParser};
use clap::{Arg, ArgAction, ArgGroup, Command};
use serde_json::Value;

fn s_of(v: &Value) -> String {
    String::from_utf8_lossy(&bytes_of(v)).into_owned()
}
fn strs(v: &Value) -> Vec<String> {
    v.as_array().map(|a| a.iter().map(|x| x.as_str().unwrap().to_string()).collect()).unwrap_or_default()
}
fn ch(v: &Value) -> Option<char> {
    // a character as its UTF-8 bytes ([] = none); delimiters are plain code points
    if let Some(n) = v.as_u64() {
        return if n == 0 { None } else { char::from_u32(n as u32) };
    }
    String::from_utf8(bytes_of(v)).ok().and_then(|s| s.chars().next())
}
pub const INF: u64 = 1_000_000;

pub fn build_arg(a: &Value) -> Arg {
    let mut x = Arg::new(a["id"].as_str().unwrap().to_string());
    if let Some(c) = ch(&a["short"]) {
        x = x.short(c);
    }
    if !bytes_of(&a["long"]).is_empty() {
        x = x.long(s_of(&a["long"]));
    }
    let visible: Vec<&Value> = a["valiases"].as_array().map(|v| v.iter().collect()).unwrap_or_default();
    for al in a["aliases"].as_array().unwrap() {
        x = if visible.contains(&al) { x.visible_alias(s_of(al)) } else { x.alias(s_of(al)) };
    }
    if let Some(n) = a["valnames"].as_u64().filter(|n| *n > 0) {
        x = x.value_names((0..n).map(|i| format!("V{i}")).collect::<Vec<_>>());
    }
    if let Some(h) = a["heading"].as_str().filter(|h| !h.is_empty()) {
        x = x.help_heading(h.to_string());
    }
    for sa in a["saliases"].as_array().map(|v| v.to_vec()).unwrap_or_default() {
        if let Some(c) = ch(&sa) {
            x = x.short_alias(c);
        }
    }
    match a["action"].as_str().unwrap() {
        "" => {}
        "Set" => x = x.action(ArgAction::Set),
        "Append" => x = x.action(ArgAction::Append),
        "SetTrue" => x = x.action(ArgAction::SetTrue),
        "SetFalse" => x = x.action(ArgAction::SetFalse),
        "Count" => x = x.action(ArgAction::Count),
        "Help" => x = x.action(ArgAction::Help),
        "Version" => x = x.action(ArgAction::Version),
        o => panic!("action {o}"),
    }
    if a["nset"].as_bool().unwrap() {
        let (lo, hi) = (a["nmin"].as_u64().unwrap() as usize, a["nmax"].as_u64().unwrap());
        x = if hi >= INF { x.num_args(lo..) } else { x.num_args(lo..=(hi as usize)) };
    }
    x = x
        .required(a["required"].as_bool().unwrap())
        .global(a["global"].as_bool().unwrap())
        .last(a["last"].as_bool().unwrap())
        .trailing_var_arg(a["tva"].as_bool().unwrap())
        .allow_hyphen_values(a["hyphen"].as_bool().unwrap())
        .allow_negative_numbers(a["negnum"].as_bool().unwrap())
        .require_equals(a["req_eq"].as_bool().unwrap())
        .exclusive(a["exclusive"].as_bool().unwrap())
        .ignore_case(a["ignore_case"].as_bool().unwrap())
        .hide(a["hide"].as_bool().unwrap())
        .hide_short_help(a["hide_short"].as_bool().unwrap_or(false))
        .hide_long_help(a["hide_long"].as_bool().unwrap_or(false))
        .next_line_help(a["nlh"].as_bool().unwrap_or(false))
        .hide_possible_values(a["hide_pv"].as_bool().unwrap_or(false));
    if let Some(o) = a["disp"].as_i64().filter(|o| *o >= 0) {
        x = x.display_order(o as usize);
    }
    if !bytes_of(&a["help"]).is_empty() {
        x = x.help(s_of(&a["help"]));
    }
    if let Some(c) = ch(&a["delim"]) {
        x = x.value_delimiter(c);
    }
    if !bytes_of(&a["term"]).is_empty() {
        x = x.value_terminator(s_of(&a["term"]));
    }
    let dv: Vec<String> = a["defaults"].as_array().unwrap().iter().map(s_of).collect();
    if !dv.is_empty() {
        x = x.default_values(dv);
    }
    let mv: Vec<String> = a["missing"].as_array().unwrap().iter().map(s_of).collect();
    if !mv.is_empty() {
        x = x.default_missing_values(mv);
    }
    for d in a["default_ifs"].as_array().unwrap() {
        let pred = if d["eq"].as_bool().unwrap() { ArgPredicate::Equals(s_of(&d["val"]).into()) } else { ArgPredicate::IsPresent };
        let def: clap::builder::Resettable<clap::builder::OsStr> =
            if d["has_def"].as_bool().unwrap() { clap::builder::Resettable::Value(s_of(&d["def"]).into()) } else { clap::builder::Resettable::Reset };
        x = x.default_value_if(d["id"].as_str().unwrap().to_string(), pred, def);
    }
    if a["has_env"].as_bool().unwrap() {
        x = x.env(a["env_name"].as_str().unwrap().to_string());
    }
    // lists are applied in two steps (first element through the singular builder method, the rest through the plural one):
    // the builder methods accumulate, and a definition assembled from several calls is as common as one call
    let c = strs(&a["conflicts"]);
    if let Some((first, rest)) = c.split_first() {
        x = x.conflicts_with(first.clone());
        if !rest.is_empty() {
            x = x.conflicts_with_all(rest.to_vec());
        }
    }
    let o = strs(&a["overrides"]);
    if let Some((first, rest)) = o.split_first() {
        x = x.overrides_with(first.clone());
        if !rest.is_empty() {
            x = x.overrides_with_all(rest.to_vec());
        }
    }
    for r in strs(&a["requires"]) {
        x = x.requires(r);
    }
    let rifs: Vec<(String, String)> = a["requires_ifs"].as_array().unwrap().iter().map(|r| (s_of(&r["val"]), r["id"].as_str().unwrap().to_string())).collect();
    if let Some((first, rest)) = rifs.split_first() {
        x = x.requires_if(first.0.clone(), first.1.clone());
        if !rest.is_empty() {
            x = x.requires_ifs(rest.to_vec());
        }
    }
    let r1: Vec<(String, String)> = a["req_if_eq"].as_array().unwrap().iter().map(|r| (r["id"].as_str().unwrap().to_string(), s_of(&r["val"]))).collect();
    if let Some((first, rest)) = r1.split_first() {
        x = x.required_if_eq(first.0.clone(), first.1.clone());
        if !rest.is_empty() {
            x = x.required_if_eq_any(rest.to_vec());
        }
    }
    let r2: Vec<(String, String)> = a["req_if_eq_all"].as_array().unwrap().iter().map(|r| (r["id"].as_str().unwrap().to_string(), s_of(&r["val"]))).collect();
    if !r2.is_empty() {
        x = x.required_if_eq_all(r2);
    }
    let u1 = strs(&a["req_unless"]);
    if let Some((first, rest)) = u1.split_first() {
        x = x.required_unless_present(first.clone());
        if !rest.is_empty() {
            x = x.required_unless_present_any(rest.to_vec());
        }
    }
    let u2 = strs(&a["req_unless_all"]);
    if !u2.is_empty() {
        x = x.required_unless_present_all(u2);
    }
    if let Some(i) = a["index"].as_u64().filter(|i| *i > 0) {
        x = x.index(i as usize);
    }
    let vp = &a["vp"];
    match vp["k"].as_str().unwrap() {
        "string" => {}
        "os" => x = x.value_parser(clap::value_parser!(std::ffi::OsString)),
        "path" => x = x.value_parser(clap::value_parser!(std::path::PathBuf)),
        "int" => x = x.value_parser(clap::value_parser!(i64).range(vp["lo"].as_i64().unwrap()..=vp["hi"].as_i64().unwrap())),
        "possible" => {
            let pvs: Vec<clap::builder::PossibleValue> = vp["pvs"].as_array().unwrap().iter().enumerate().map(|(i, n)| {
                let mut pv = clap::builder::PossibleValue::new(s_of(n)).hide(vp["pv_hide"][i].as_bool().unwrap_or(false));
                for al in vp["pv_aliases"][i].as_array().map(|a| a.to_vec()).unwrap_or_default() {
                    pv = pv.alias(s_of(&al));
                }
                let h = bytes_of(&vp["pv_help"][i]);
                if !h.is_empty() {
                    pv = pv.help(String::from_utf8_lossy(&h).into_owned());
                }
                pv
            }).collect();
            x = x.value_parser(PossibleValuesParser::new(pvs))
        }
        "boolish" => x = x.value_parser(clap::builder::BoolishValueParser::new()),
        "falsey" => x = x.value_parser(clap::builder::FalseyValueParser::new()),
        "nonempty" => x = x.value_parser(clap::builder::NonEmptyStringValueParser::new()),
        o => panic!("vp {o}"),
    }
    x
}

pub fn build_cmd(c: &Value) -> Command {
    let mut cmd = Command::new(s_of(&c["name"]));
    for al in c["aliases"].as_array().unwrap() {
        cmd = cmd.alias(s_of(al));
    }
    if let Some(s) = ch(&c["short_flag"]) {
        cmd = cmd.short_flag(s);
    }
    if !bytes_of(&c["long_flag"]).is_empty() {
        cmd = cmd.long_flag(s_of(&c["long_flag"]));
    }
    for la in c["long_flag_aliases"].as_array().map(|a| a.to_vec()).unwrap_or_default() {
        cmd = cmd.long_flag_alias(s_of(&la));
    }
    for sa in c["short_flag_aliases"].as_array().map(|a| a.to_vec()).unwrap_or_default() {
        if let Some(c) = ch(&sa) {
            cmd = cmd.short_flag_alias(c);
        }
    }
    if c["hide"].as_bool().unwrap_or(false) {
        cmd = cmd.hide(true);
    }
    if !bytes_of(&c["about"]).is_empty() {
        cmd = cmd.about(s_of(&c["about"]));
    }
    if c["version"].as_bool().unwrap() {
        cmd = cmd.version("1.0");
    }
    if let Some(w) = c["term_width"].as_u64().filter(|w| *w > 0) {
        cmd = cmd.term_width(w as usize);
    }
    let s = &c["s"];
    let on = |k: &str| s[k].as_bool().unwrap_or(false);
    // only call a setter when it is on: the global ones use global_setting and must not be unset here
    if on("ignore_errors") { cmd = cmd.ignore_errors(true); }
    if on("args_override_self") { cmd = cmd.args_override_self(true); }
    if on("dont_delimit_trailing_values") { cmd = cmd.dont_delimit_trailing_values(true); }
    if on("infer_long_args") { cmd = cmd.infer_long_args(true); }
    if on("infer_subcommands") { cmd = cmd.infer_subcommands(true); }
    if on("disable_help_flag") { cmd = cmd.disable_help_flag(true); }
    if on("disable_version_flag") { cmd = cmd.disable_version_flag(true); }
    if on("disable_help_subcommand") { cmd = cmd.disable_help_subcommand(true); }
    if on("propagate_version") { cmd = cmd.propagate_version(true); }
    if on("next_line_help") { cmd = cmd.next_line_help(true); }
    if on("arg_required_else_help") { cmd = cmd.arg_required_else_help(true); }
    if on("allow_missing_positional") { cmd = cmd.allow_missing_positional(true); }
    if on("subcommand_required") { cmd = cmd.subcommand_required(true); }
    if on("allow_external_subcommands") { cmd = cmd.allow_external_subcommands(true); }
    if on("args_conflicts_with_subcommands") { cmd = cmd.args_conflicts_with_subcommands(true); }
    if on("subcommand_precedence_over_arg") { cmd = cmd.subcommand_precedence_over_arg(true); }
    if on("subcommand_negates_reqs") { cmd = cmd.subcommand_negates_reqs(true); }
    if on("no_binary_name") { cmd = cmd.no_binary_name(true); }
    if on("multicall") { cmd = cmd.multicall(true); }
    if on("flatten_help") { cmd = cmd.flatten_help(true); }
    #[allow(deprecated)]
    {
        if on("allow_hyphen_values") { cmd = cmd.allow_hyphen_values(true); }
        if on("allow_negative_numbers") { cmd = cmd.allow_negative_numbers(true); }
        if on("trailing_var_arg") { cmd = cmd.trailing_var_arg(true); }
    }
    for a in c["args"].as_array().unwrap() {
        let mut x = build_arg(a);
        // membership declared on the argument (Arg::groups) rather than on the group
        let via: Vec<String> = c["groups"].as_array().unwrap().iter()
            .filter(|g| g["via_arg"].as_array().map(|v| v.iter().any(|m| m == &a["id"])).unwrap_or(false))
            .map(|g| g["id"].as_str().unwrap().to_string()).collect();
        if !via.is_empty() {
            x = x.groups(via);
        }
        cmd = cmd.arg(x);
    }
    for g in c["groups"].as_array().unwrap() {
        if g["implicit"] == true {
            continue;
        }
        let via: Vec<String> = strs(&g["via_arg"]);
        let direct: Vec<String> = strs(&g["args"]).into_iter().filter(|m| !via.contains(m)).collect();
        let mut grp = ArgGroup::new(g["id"].as_str().unwrap().to_string())
            .args(direct)
            .required(g["required"].as_bool().unwrap())
            .multiple(g["multiple"].as_bool().unwrap());
        let r = strs(&g["requires"]);
        if !r.is_empty() {
            grp = grp.requires_all(r);
        }
        let cf = strs(&g["conflicts"]);
        if !cf.is_empty() {
            grp = grp.conflicts_with_all(cf);
        }
        cmd = cmd.group(grp);
    }
    for sc in c["subs"].as_array().unwrap() {
        cmd = cmd.subcommand(build_cmd(sc));
    }
    cmd
}

/// Build from a definition record (sets its environment first); Err(msg) = the real validity gate rejected it.
pub fn build_def(d: &Value) -> Result<Command, String> {
    if let Some(env) = d["env"].as_object() {
        for (k, v) in env {
            std::env::set_var(k, os(&bytes_of(v)));
        }
    }
    let c = d["cmd"].clone();
    guarded(move || {
        let cmd = build_cmd(&c);
        let mut probe = cmd.clone();
        probe.build();
        cmd
    })
}
