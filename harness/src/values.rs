//! C04 binding: built-in value parsers and typed access, through Command/ArgMatches.
use crate::util::*;
use clap::builder::{PossibleValue, PossibleValuesParser, RangedI64ValueParser, RangedU64ValueParser, ValueParser};
use clap::error::{ContextKind, ErrorKind};
use clap::{Arg, ArgAction, ArgMatches, Command};
use serde_json::{json, Value};
use std::ffi::OsString;
use std::ops::Bound;

fn s_of(v: &Value) -> String {
    String::from_utf8(bytes_of(v)).unwrap()
}
fn bound_i(kind: &str, n: &str) -> Bound<i64> {
    match kind {
        "unb" => Bound::Unbounded,
        "inc" => Bound::Included(n.parse().unwrap()),
        "exc" => Bound::Excluded(n.parse().unwrap()),
        _ => panic!(),
    }
}
fn bound_u(kind: &str, n: &str) -> Bound<u64> {
    match kind {
        "unb" => Bound::Unbounded,
        "inc" => Bound::Included(n.parse().unwrap()),
        "exc" => Bound::Excluded(n.parse().unwrap()),
        _ => panic!(),
    }
}

type Getter = Box<dyn Fn(&ArgMatches) -> Vec<u8>>;

fn getter<T: Clone + Send + Sync + std::fmt::Display + 'static>() -> Getter {
    Box::new(|m: &ArgMatches| m.get_one::<T>("a").map(|v| v.to_string()).unwrap_or_else(|| "<none>".into()).into_bytes())
}

macro_rules! ranged_i {
    ($t:ty, $ctor:expr, $lo:expr, $hi:expr) => {{
        let vp: ValueParser = if $ctor == "factory" {
            clap::value_parser!($t).range(($lo, $hi)).into()
        } else {
            RangedI64ValueParser::<$t>::new().range(($lo, $hi)).into()
        };
        (vp, getter::<$t>())
    }};
}

fn ranged_parser(t: &str, ctor: &str, r: &Value) -> (ValueParser, Getter) {
    let (lk, hk) = (r["lk"].as_str().unwrap(), r["hk"].as_str().unwrap());
    let (lo, hi) = (s_of(&r["lo"]), s_of(&r["hi"]));
    if t == "u64" {
        let (l, h) = (bound_u(lk, &lo), bound_u(hk, &hi));
        let vp: ValueParser = if ctor == "factory" {
            clap::value_parser!(u64).range((l, h)).into()
        } else {
            RangedU64ValueParser::<u64>::new().range((l, h)).into()
        };
        return (vp, getter::<u64>());
    }
    let (l, h) = (bound_i(lk, &lo), bound_i(hk, &hi));
    if ctor == "short" {
        // the std range shorthands accepted by Arg::value_parser (i64 only)
        let a: i64 = if lk == "inc" { lo.parse().unwrap() } else { 0 };
        let b: i64 = if hk != "unb" { hi.parse().unwrap() } else { 0 };
        let vp: ValueParser = match (lk, hk) {
            ("inc", "inc") => (a..=b).into(),
            ("inc", "exc") => (a..b).into(),
            ("inc", "unb") => (a..).into(),
            ("unb", "inc") => (..=b).into(),
            ("unb", "exc") => (..b).into(),
            ("unb", "unb") => (..).into(),
            _ => panic!("no shorthand"),
        };
        return (vp, getter::<i64>());
    }
    match t {
        "u8" => ranged_i!(u8, ctor, l, h),
        "i8" => ranged_i!(i8, ctor, l, h),
        "u16" => ranged_i!(u16, ctor, l, h),
        "i16" => ranged_i!(i16, ctor, l, h),
        "u32" => ranged_i!(u32, ctor, l, h),
        "i32" => ranged_i!(i32, ctor, l, h),
        "i64" => ranged_i!(i64, ctor, l, h),
        _ => panic!("type {t}"),
    }
}

fn kind_name(k: ErrorKind) -> String {
    format!("{k:?}")
}

/// parse `--a=<s>` and project: {k: "Ok"|kind, v: typed value rendered, raw_ok, named}
fn run_one(cmd: &Command, get: &Getter, s: &[u8]) -> Value {
    let mut argv: Vec<OsString> = vec!["x".into()];
    let mut a = b"--a=".to_vec();
    a.extend_from_slice(s);
    argv.push(os(&a));
    let r = guarded(std::panic::AssertUnwindSafe(|| cmd.clone().try_get_matches_from(argv)));
    match r {
        Err(m) => json!({"k": "Panic", "v": [], "msg": m, "at": last_panic_loc()}),
        Ok(Ok(m)) => {
            let v = get(&m);
            let raw: Vec<Vec<u8>> = m
                .get_raw("a")
                .map(|r| r.map(|o| { use std::os::unix::ffi::OsStrExt; o.as_bytes().to_vec() }).collect())
                .unwrap_or_default();
            json!({"k": "Ok", "v": jb(&v), "raw_ok": raw == vec![s.to_vec()], "named": true})
        }
        Ok(Err(e)) => {
            let named = e
                .get(ContextKind::InvalidArg)
                .map(|c| c.to_string().contains("--a"))
                .unwrap_or(false);
            json!({"k": kind_name(e.kind()), "v": [], "raw_ok": true, "named": named})
        }
    }
}

fn judge(rep: &mut Report, dw: &mut NdWriter, ctx: Value, cases: &Value, cmd: &Command, get: &Getter) {
    for c in cases.as_array().unwrap() {
        rep.count("evaluations", 1);
        let s = bytes_of(&c["s"]);
        let g = run_one(cmd, get, &s);
        let want = &c["want"];
        let agree = g["k"] == want["k"] && g["v"] == want["v"];
        // the binding itself: the typed value came from the reported raw string, value errors name the argument
        let named_ok = g["k"] == "InvalidUtf8" || g["k"] == "Ok" || g["named"] == true;
        if !agree || g["raw_ok"] != true || !named_ok {
            let mut line = ctx.clone();
            line["s"] = c["s"].clone();
            line["got"] = json!({"k": g["k"], "v": g["v"], "raw_ok": g["raw_ok"] == true, "named": named_ok});
            line["panicked"] = json!(g["k"] == "Panic");
            dw.put(&line);
            rep.mismatch(json!({"ctx": ctx, "s": c["s"], "want": want, "got": g}));
        }
    }
}

pub fn c04_ranged_replay(input: &str, out: &str, div: &str) {
    let mut rep = Report::new();
    let mut dw = NdWriter::create(div);
    for rec in read_ndjson(input) {
        rep.n += 1;
        let t = rec["t"].as_str().unwrap();
        let ctor = rec["ctor"].as_str().unwrap();
        let built = guarded(std::panic::AssertUnwindSafe(|| {
            let (vp, get) = ranged_parser(t, ctor, &rec["r"]);
            let mut cmd = Command::new("x").arg(Arg::new("a").long("a").value_parser(vp));
            cmd.build();
            (cmd, get)
        }));
        let ctx = json!({"mode": "ranged", "t": t, "ctor": ctor, "r": rec["r"]});
        match built {
            Err(m) => {
                // a constructor debug-assertion: the spec's FactoryOk thought this range admissible
                rep.count("ctor_rejected", 1);
                rep.mismatch(json!({"ctx": ctx, "ctor_panic": m}));
            }
            Ok((cmd, get)) => {
                judge(&mut rep, &mut dw, ctx.clone(), &rec["cases"], &cmd, &get);
                rep.sample(json!({"t": t, "ctor": ctor, "r": {"lk": rec["r"]["lk"], "lo": s_of(&rec["r"]["lo"]), "hk": rec["r"]["hk"], "hi": s_of(&rec["r"]["hi"])},
                                  "n_strings": rec["cases"].as_array().unwrap().len()}));
            }
        }
    }
    dw.finish();
    rep.write(out);
}

#[derive(Clone, Copy, Debug, PartialEq, Eq)]
enum Speed {
    Fast,
    Slow,
}
impl clap::ValueEnum for Speed {
    fn value_variants<'a>() -> &'a [Self] {
        &[Speed::Fast, Speed::Slow]
    }
    fn to_possible_value(&self) -> Option<PossibleValue> {
        Some(match self {
            Speed::Fast => PossibleValue::new("fast").alias("quick"),
            Speed::Slow => PossibleValue::new("Slow").hide(true),
        })
    }
}
impl std::fmt::Display for Speed {
    fn fmt(&self, f: &mut std::fmt::Formatter<'_>) -> std::fmt::Result {
        f.write_str(match self {
            Speed::Fast => "fast",
            Speed::Slow => "Slow",
        })
    }
}

fn other_parser(pk: &str, ic: bool) -> (Arg, Getter) {
    let a = Arg::new("a").long("a").ignore_case(ic);
    match pk {
        "bool" => (a.value_parser(clap::value_parser!(bool)), getter::<bool>()),
        "boolish" => (a.value_parser(clap::builder::BoolishValueParser::new()), getter::<bool>()),
        "falsey" => (a.value_parser(clap::builder::FalseyValueParser::new()), getter::<bool>()),
        "possible" => (
            a.value_parser(PossibleValuesParser::new([
                PossibleValue::new("fast").alias("quick"),
                PossibleValue::new("Slow").hide(true),
            ])),
            getter::<String>(),
        ),
        "nonempty" => (a.value_parser(clap::builder::NonEmptyStringValueParser::new()), getter::<String>()),
        "string" => (a.value_parser(clap::value_parser!(String)), getter::<String>()),
        "os" => (
            a.value_parser(clap::value_parser!(OsString)),
            Box::new(|m: &ArgMatches| {
                // rendered lossily only for UTF-8; compare through raw bytes instead
                m.get_one::<OsString>("a").map(|v| v.to_string_lossy().into_owned()).unwrap_or_default().into_bytes()
            }),
        ),
        // EnumValueParser over a ValueEnum with the same names as the "possible" kind; the typed value is the variant,
        // rendered by its canonical name
        "enum" => (a.value_parser(clap::builder::EnumValueParser::<Speed>::new()), getter::<Speed>()),
        // PathBufValueParser: every non-empty OS string, verbatim
        "pathbuf" => (
            a.value_parser(clap::value_parser!(std::path::PathBuf)),
            Box::new(|m: &ArgMatches| {
                use std::os::unix::ffi::OsStrExt;
                m.get_one::<std::path::PathBuf>("a").map(|v| v.as_os_str().as_bytes().to_vec()).unwrap_or_else(|| b"<none>".to_vec())
            }),
        ),
        _ => panic!("pk {pk}"),
    }
}

pub fn c04_other_replay(input: &str, out: &str, div: &str) {
    let mut rep = Report::new();
    let mut dw = NdWriter::create(div);
    for rec in read_ndjson(input) {
        rep.n += 1;
        let pk = rec["pk"].as_str().unwrap();
        let ic = rec["ic"].as_bool().unwrap();
        let (arg, get) = other_parser(pk, ic);
        let mut cmd = Command::new("x").arg(arg);
        cmd.build();
        let ctx = json!({"mode": "other", "pk": pk, "ic": ic});
        if pk == "os" {
            // OsString: value = raw bytes, compare via get_one directly
            for c in rec["cases"].as_array().unwrap() {
                rep.count("evaluations", 1);
                let s = bytes_of(&c["s"]);
                let mut a = b"--a=".to_vec();
                a.extend_from_slice(&s);
                let r = guarded(std::panic::AssertUnwindSafe(|| cmd.clone().try_get_matches_from(vec![OsString::from("x"), os(&a)])));
                let ok = matches!(&r, Ok(Ok(m)) if m.get_one::<OsString>("a").map(|v| { use std::os::unix::ffi::OsStrExt; v.as_bytes() == &s[..] }).unwrap_or(false));
                if !ok {
                    let mut line = ctx.clone();
                    line["s"] = c["s"].clone();
                    line["got"] = json!({"k": "Other", "v": [], "raw_ok": false, "named": true});
                    line["panicked"] = json!(r.is_err());
                    dw.put(&line);
                    rep.mismatch(json!({"ctx": ctx, "s": c["s"]}));
                }
            }
        } else {
            judge(&mut rep, &mut dw, ctx.clone(), &rec["cases"], &cmd, &get);
        }
        rep.sample(json!({"pk": pk, "ic": ic, "n_strings": rec["cases"].as_array().unwrap().len()}));
    }
    dw.finish();
    rep.write(out);
}

// ------------------------------------------------------------ typed access
fn fresh_matches() -> ArgMatches {
    Command::new("x")
        .arg(Arg::new("a").long("a").action(ArgAction::Append).value_parser(clap::value_parser!(u8)))
        .arg(Arg::new("b").long("b").value_parser(clap::value_parser!(String)))
        .arg(Arg::new("c").long("c"))
        .try_get_matches_from(["x", "--a", "1", "--a", "2", "--b", "x"])
        .unwrap()
}
fn vals<T: std::fmt::Display>(it: impl Iterator<Item = T>) -> Value {
    Value::Array(it.map(|v| jb(v.to_string().as_bytes())).collect())
}
fn access_res<T>(r: Result<Option<T>, clap::parser::MatchesError>, f: impl FnOnce(T) -> Value) -> Value {
    match r {
        Ok(Some(v)) => json!({"k": "Some", "v": f(v)}),
        Ok(None) => json!({"k": "None", "v": []}),
        Err(clap::parser::MatchesError::Downcast { .. }) => json!({"k": "Downcast", "v": []}),
        Err(clap::parser::MatchesError::UnknownArgument { .. }) => json!({"k": "Unknown", "v": []}),
        Err(_) => json!({"k": "OtherErr", "v": []}),
    }
}
fn access_t<T: Clone + Send + Sync + std::fmt::Display + 'static>(m: &mut ArgMatches, op: &str, id: &str) -> Value {
    match op {
        "get_one" => access_res(m.try_get_one::<T>(id), |v| vals(std::iter::once(v))),
        "get_many" => access_res(m.try_get_many::<T>(id), |v| vals(v)),
        "get_occurrences" => access_res(m.try_get_occurrences::<T>(id), |v| vals(v.flatten())),
        "remove_one" => access_res(m.try_remove_one::<T>(id), |v| vals(std::iter::once(v))),
        "remove_many" => access_res(m.try_remove_many::<T>(id), |v| vals(v)),
        "remove_occurrences" => access_res(m.try_remove_occurrences::<T>(id), |v| vals(v.flatten())),
        _ => panic!("op {op}"),
    }
}
fn access(m: &mut ArgMatches, c: &Value) -> Value {
    let (op, id, ty) = (c["op"].as_str().unwrap(), c["id"].as_str().unwrap(), c["ty"].as_str().unwrap());
    match op {
        "contains_id" => match m.try_contains_id(id) {
            Ok(b) => json!({"k": if b { "true" } else { "false" }, "v": []}),
            Err(_) => json!({"k": "Unknown", "v": []}),
        },
        "clear_id" => match m.try_clear_id(id) {
            Ok(b) => json!({"k": if b { "true" } else { "false" }, "v": []}),
            Err(_) => json!({"k": "Unknown", "v": []}),
        },
        "get_raw" => access_res(m.try_get_raw(id), |v| Value::Array(v.map(jbytes).collect())),
        _ if ty == "u8" => access_t::<u8>(m, op, id),
        _ => access_t::<String>(m, op, id),
    }
}
fn store_of(m: &ArgMatches) -> Value {
    let mut o = vec![];
    for id in ["a", "b", "c"] {
        match m.try_get_raw(id) {
            Ok(Some(r)) => o.push(json!({"id": id, "present": true, "vals": Value::Array(r.map(jbytes).collect())})),
            _ => o.push(json!({"id": id, "present": false, "vals": []})),
        }
    }
    Value::Array(o)
}

pub fn c04_access_replay(input: &str, out: &str, div: &str) {
    let mut rep = Report::new();
    let mut dw = NdWriter::create(div);
    for rec in read_ndjson(input) {
        rep.n += 1;
        let r = guarded(std::panic::AssertUnwindSafe(|| {
            let mut m = fresh_matches();
            let mut rets = vec![];
            for c in rec["path"].as_array().unwrap() {
                rets.push(access(&mut m, c));
            }
            let st = store_of(&m);
            let mut fan = vec![];
            for f in rec["fan"].as_array().unwrap() {
                let mut m2 = m.clone();
                let before = store_of(&m2);
                let r = access(&mut m2, &f["c"]);
                fan.push(json!({"c": f["c"], "r": r, "before": before, "after": store_of(&m2)}));
            }
            (rets, st, fan)
        }));
        match r {
            Err(msg) => {
                rep.mismatch(json!({"path": rec["path"], "panic": msg, "at": last_panic_loc()}));
                dw.put(&json!({"mode": "access", "path": rec["path"], "panicked": true, "steps": []}));
            }
            Ok((rets, st, fan)) => {
                let mut bad = Value::Array(rets.clone()) != rec["rets"] || st != rec["store"];
                let mut steps = vec![];
                for g in &fan {
                    rep.count("transitions", 1);
                    let want = rec["fan"].as_array().unwrap().iter().find(|w| w["c"] == g["c"]).unwrap();
                    if g["r"] != want["r"] || g["after"] != want["after"] {
                        bad = true;
                        steps.push(g.clone());
                    }
                }
                if bad {
                    rep.mismatch(json!({"path": rec["path"], "want_rets": rec["rets"], "got_rets": rets, "want_store": rec["store"], "got_store": st, "steps": steps}));
                    // trace lines: one per divergent step (before-store, call, result, after-store)
                    for g in steps {
                        dw.put(&json!({"mode": "access", "panicked": false, "before": g["before"], "c": g["c"], "r": g["r"], "after": g["after"]}));
                    }
                } else {
                    rep.sample(json!({"path": rec["path"], "rets": rets, "store": st}));
                }
            }
        }
    }
    dw.finish();
    rep.write(out);
}

// ------------------------------------------------------------ recording
pub fn c04_record(seed: u64, n: usize, out: &str) {
    use rand::{rngs::StdRng, Rng, SeedableRng};
    let mut rng = StdRng::seed_from_u64(seed);
    let mut w = NdWriter::create(out);
    let types: [(&str, i128, i128); 8] = [
        ("u8", 0, 255), ("i8", -128, 127), ("u16", 0, 65535), ("i16", -32768, 32767),
        ("u32", 0, u32::MAX as i128), ("i32", i32::MIN as i128, i32::MAX as i128),
        ("i64", i64::MIN as i128, i64::MAX as i128), ("u64", 0, u64::MAX as i128),
    ];
    let mut produced = 0;
    while produced < n {
        let (t, tlo, thi) = types[rng.gen_range(0..types.len())];
        let (clo, chi) = if t == "u64" { (0i128, u64::MAX as i128) } else { (i64::MIN as i128, i64::MAX as i128) };
        // a number near something interesting, or anywhere in the carrier
        let mut pick = |rng: &mut StdRng, wide: bool| -> i128 {
            let anchors = [tlo, thi, 0, clo, chi, 100, -100];
            let x = match rng.gen_range(0..4) {
                0 => anchors[rng.gen_range(0..anchors.len())] + rng.gen_range(-2..=2),
                1 => rng.gen_range(-300..=300),
                2 => rng.gen_range(clo..=chi),
                _ => anchors[rng.gen_range(0..anchors.len())],
            };
            if wide { x } else { x.clamp(clo, chi) }
        };
        let kinds = ["unb", "inc", "exc"];
        let (lk, hk) = (kinds[rng.gen_range(0..3)], kinds[rng.gen_range(0..3)]);
        let (lo, hi) = (pick(&mut rng, false), pick(&mut rng, false));
        let r = json!({"lk": lk, "lo": jb(lo.to_string().as_bytes()), "hk": hk, "hi": jb(hi.to_string().as_bytes())});
        let built = guarded(std::panic::AssertUnwindSafe(|| {
            let (vp, get) = ranged_parser(t, "new", &r);
            let mut cmd = Command::new("x").arg(Arg::new("a").long("a").value_parser(vp));
            cmd.build();
            (cmd, get)
        }));
        let Ok((cmd, get)) = built else { continue };
        for _ in 0..8 {
            let v = pick(&mut rng, true);
            let mut s = v.abs().to_string();
            for _ in 0..rng.gen_range(0..3) {
                if rng.gen_bool(0.3) { s.insert(0, '0'); }
            }
            let sign = if v < 0 { "-" } else { ["", "", "+", "-"][rng.gen_range(0..4)] };
            let mut sb = format!("{sign}{s}").into_bytes();
            match rng.gen_range(0..25) {
                0 => sb.push(b' '),
                1 => sb.insert(0, b' '),
                2 => sb.push(0xFF),
                3 => sb.extend_from_slice(b"_0"),
                4 => sb.clear(),
                _ => {}
            }
            let g = run_one(&cmd, &get, &sb);
            let named_ok = g["k"] == "InvalidUtf8" || g["k"] == "Ok" || g["named"] == true;
            w.put(&json!({"mode": "ranged", "t": t, "ctor": "new", "r": r, "s": jb(&sb), "panicked": g["k"] == "Panic",
                          "got": {"k": g["k"], "v": g["v"], "raw_ok": g["raw_ok"] == true, "named": named_ok}}));
            produced += 1;
        }
    }
    w.finish();
}
