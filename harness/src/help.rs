//! C12 binding: render help / usage / help errors of the real clap at many widths and
//! report what is mentioned where.
use crate::parse::load_defs;
use crate::util::*;
use clap::Command;
use serde_json::{json, Value};
use std::ffi::OsString;

fn set_width(cmd: Command, w: usize) -> Command {
    // term_width is per command: apply it to every level
    let mut cmd = cmd.term_width(w);
    let names: Vec<String> = cmd.get_subcommands().map(|s| s.get_name().to_string()).collect();
    for n in names {
        cmd = cmd.mut_subcommand(n, |sc| set_width(sc, w));
    }
    cmd
}

/// custom help templates (Command::help_template), applied to every level: the documented default-like one, one made of
/// the separate section tags with an unknown tag and an unclosed brace, one with a single tag
const TEMPLATES: [(&str, &str); 3] = [
    ("tmplA", "{before-help}{name} {version}\n{author-with-newline}{about-with-newline}\n{usage-heading} {usage}\n\n{all-args}{after-help}"),
    ("tmplB", "{bin}\n{tab}{usage}\nOPTS:\n{options}\nPOS:\n{positionals}\nSUBS:\n{subcommands}\n{unknown-tag} {about-section}{"),
    ("tmplC", "{options}"),
];
fn set_template(cmd: Command, t: &'static str) -> Command {
    let mut cmd = cmd.help_template(t);
    let names: Vec<String> = cmd.get_subcommands().map(|s| s.get_name().to_string()).collect();
    for n in names {
        cmd = cmd.mut_subcommand(n, |sc| set_template(sc, t));
    }
    cmd
}

fn find_sub(hay: &[u8], needle: &[u8]) -> bool {
    !needle.is_empty() && hay.windows(needle.len()).any(|w| w == needle)
}

/// sections of the default template: "Usage" line(s), then headings ending with ':' at column 0
fn analyse(text: &str, universe: &[Vec<u8>]) -> Value {
    let mut maxrun = 0usize;
    let mut present: Vec<Value> = vec![];
    let mut sec = String::from("Top");
    for line in text.lines() {
        let mut run = 0;
        let trimmed = line.trim_end();
        for ch in trimmed.chars() {
            if ch == ' ' { run += 1; maxrun = maxrun.max(run); } else { run = 0; }
        }
        if line.starts_with("Usage:") {
            sec = "Usage".into();
        } else if !line.starts_with(' ') && line.ends_with(':') && !line.is_empty() {
            sec = line.trim_end_matches(':').to_string();
            continue;
        }
        for t in universe {
            if find_sub(line.as_bytes(), t) {
                let v = json!({"sec": sec, "tok": jb(t)});
                if !present.contains(&v) { present.push(v); }
            }
        }
    }
    json!({"panicked": false, "maxrun": maxrun, "present": present})
}

fn render(cmd: &Command, path: &[String], what: &str) -> Result<String, String> {
    let cmd = cmd.clone();
    let path = path.to_vec();
    let what = what.to_string();
    guarded(std::panic::AssertUnwindSafe(move || {
        let mut argv: Vec<OsString> = vec!["prog".into()];
        argv.extend(path.iter().map(OsString::from));
        let (cmd, what) = match TEMPLATES.iter().find(|(n, _)| what.starts_with(n)) {
            Some((n, t)) => (set_template(cmd, t), what[n.len() + 1..].to_string()),
            None => (cmd, what),
        };
        match what.as_str() {
            "short" | "long" => {
                argv.push(if what == "short" { "-h".into() } else { "--help".into() });
                match cmd.try_get_matches_from(argv) {
                    Err(e) => e.render().to_string(),
                    Ok(_) => "<no help error>".to_string(),
                }
            }
            "mirror_short" | "mirror_long" => {
                // the generated `help` subcommand's copy of the tree (only materialised by Command::build)
                let mut c = cmd;
                c.build();
                let mut cur: &mut Command = match c.find_subcommand_mut("help") { Some(h) => h, None => return "<no help subcommand>".to_string() };
                for p in &path {
                    cur = match cur.find_subcommand_mut(p) { Some(x) => x, None => return "<no mirror node>".to_string() };
                }
                if what == "mirror_short" { cur.render_help().to_string() } else { cur.render_long_help().to_string() }
            }
            "direct_short" => { let mut c = cmd; c.render_help().to_string() }
            "direct_long" => { let mut c = cmd; c.render_long_help().to_string() }
            _ => { let mut c = cmd; c.render_usage().to_string() }
        }
    }))
}

fn universe_of(r: &Value) -> Vec<Vec<u8>> {
    let mut u: Vec<Vec<u8>> = vec![];
    for k in ["must_short", "must_long"] {
        for x in r[k].as_array().unwrap() { let t = bytes_of(&x["tok"]); if !u.contains(&t) { u.push(t); } }
    }
    for k in ["not_short", "not_long", "not_usage", "nl_short", "nl_long"] {
        for x in r[k].as_array().unwrap() { let t = bytes_of(x); if !u.contains(&t) { u.push(t); } }
    }
    u
}

fn judge(r: &Value, mode: &str, obs: &Value) -> bool {
    if obs["panicked"] == true { return false; }
    if obs["maxrun"].as_u64().unwrap() > r["bound"].as_u64().unwrap() { return false; }
    let present = obs["present"].as_array().unwrap();
    let has_tok = |t: &Value| present.iter().any(|p| p["tok"] == *t);
    match mode {
        // custom template: renders, bounded padding, nothing hidden anywhere
        m if m.starts_with("tmpl") => !r[if m.ends_with("short") { "not_short" } else { "not_long" }].as_array().unwrap().iter().any(has_tok),
        "usage" => !r["not_usage"].as_array().unwrap().iter().any(has_tok),
        "mirror_short" | "mirror_long" => {
            r["mirror_must"].as_array().unwrap().iter().all(|m| present.iter().any(|p| p["tok"] == m["tok"] && p["sec"] == m["sec"]))
                && !r["mirror_not"].as_array().unwrap().iter().any(has_tok)
        }
        _ => {
            let (must, not, nl) = if mode.ends_with("short") { ("must_short", "not_short", "nl_short") } else { ("must_long", "not_long", "nl_long") };
            let listed = |t: &Value| present.iter().any(|p| p["tok"] == *t && !["Top", "Usage"].contains(&p["sec"].as_str().unwrap_or("")));
            r[must].as_array().unwrap().iter().all(|m| present.iter().any(|p| p["tok"] == m["tok"] && p["sec"] == m["sec"]))
                && !r[not].as_array().unwrap().iter().any(has_tok)
                && !r[nl].as_array().unwrap().iter().any(listed)
        }
    }
}

pub fn help_replay(defs: &str, input: &str, out: &str, div: &str, widths: &str) {
    let d = load_defs(defs);
    let widths: Vec<usize> = widths.split(',').map(|w| w.parse().unwrap()).collect();
    let mut rep = Report::new();
    let mut dw = NdWriter::create(div);
    for r in read_ndjson(input) {
        rep.n += 1;
        let di = r["d"].as_u64().unwrap() as usize - 1;
        let Ok(base) = &d.cmds[di] else { rep.count("gate_rejected", 1); continue };
        let path: Vec<String> = r["path"].as_array().unwrap().iter().map(|p| String::from_utf8_lossy(&bytes_of(p)).into_owned()).collect();
        let uni = universe_of(&r);
        for &w in &widths {
            let cmd = set_width(base.clone(), w);
            let mut modes = vec!["short", "long"];
            if path.is_empty() { modes.extend(["direct_short", "direct_long", "usage"]); }
            if r["mirror"] == true && w == widths[0] { modes.extend(["mirror_short", "mirror_long"]); }
            modes.extend(["tmplA_short", "tmplA_long", "tmplB_short", "tmplB_long", "tmplC_short", "tmplC_long"]);
            for mode in modes {
                rep.count("renderings", 1);
                let obs = match render(&cmd, &path, mode) {
                    Err(m) => json!({"panicked": true, "maxrun": 0, "present": [], "msg": m, "at": last_panic_loc()}),
                    Ok(text) => {
                        let mut o = analyse(&text, &uni);
                        // the help flag yields the help of the level it was given at: its usage line names the path
                        if mode.starts_with("tmpl") {
                            o["level_ok"] = json!(true);
                        } else if mode == "short" || mode == "long" {
                            // flag subcommands are shown as {name|--long|-s}: reduce each group to its first alternative
                            let norm = |l: &str| -> String {
                                let mut out = String::new();
                                let mut depth = 0;
                                let mut skipping = false;
                                for ch in l.chars() {
                                    match ch {
                                        '{' => { depth += 1; skipping = false; }
                                        '}' => { depth -= 1; skipping = false; }
                                        '|' if depth > 0 => skipping = true,
                                        _ if skipping => {}
                                        _ => out.push(ch),
                                    }
                                }
                                out
                            };
                            let want = format!("Usage: prog{}", path.iter().map(|p| format!(" {p}")).collect::<String>());
                            o["level_ok"] = json!(text.lines().map(norm).any(|l| l.starts_with(&want) && (l.len() == want.len() || l.as_bytes()[want.len()] == b' ')));
                        } else {
                            o["level_ok"] = json!(true);
                        }
                        o
                    }
                };
                let ok = judge(&r, mode, &obs) && obs["level_ok"] != false;
                if !ok {
                    rep.mismatch(json!({"label": d.recs[di]["label"], "path": path, "mode": mode, "w": w, "obs": obs}));
                    dw.put(&json!({"d": di + 1, "path": r["path"], "mode": mode, "w": w,
                                   "obs": {"panicked": obs["panicked"], "maxrun": obs["maxrun"], "present": obs["present"]},
                                   "level_ok": obs["level_ok"] != false}));
                } else if rep.samples.len() < 3 && w == 20 && mode == "short" {
                    rep.sample(json!({"def": d.recs[di]["label"], "mode": mode, "width": w, "maxrun": obs["maxrun"], "mentions": obs["present"].as_array().unwrap().len()}));
                }
            }
        }
    }
    dw.finish();
    rep.write(out);
}

pub fn help_show(defs: &str, label: &str, path: &str, mode: &str, w: usize) {
    let d = load_defs(defs);
    for (i, r) in d.recs.iter().enumerate() {
        if r["label"] == label {
            let cmd = set_width(d.cmds[i].as_ref().unwrap().clone(), w);
            let p: Vec<String> = path.split(',').filter(|x| !x.is_empty()).map(|x| x.to_string()).collect();
            println!("{}", render(&cmd, &p, mode).unwrap_or_else(|m| format!("PANIC {m}")));
        }
    }
}
