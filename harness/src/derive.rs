//! C15 binding: the compiled derive corpus (src/corpus.rs, generated) against Derive.tla's expectations.
use crate::corpus;
use crate::parse::{obs_core, obs_matches, project_matches};
use crate::util::*;
use serde_json::{json, Value};
use std::ffi::OsString;

fn argv_of(v: &Value) -> Vec<OsString> {
    let mut a: Vec<OsString> = vec!["prog".into()];
    for w in v.as_array().unwrap() { a.push(os(&bytes_of(w))); }
    a
}
fn err_obs(e: &clap::Error) -> Value {
    json!({"outcome": "Err", "kind": format!("{:?}", e.kind()), "stderr": e.use_stderr(), "exit": e.exit_code(), "chain": []})
}
fn empty_value() -> Value { json!({"top": [], "cmd": [], "sub": [], "cmd2": [], "sub2": []}) }

/// one parse through the derived type and through its command: the trace line
fn parse_line(ty: &str, di: u64, argv: &Value) -> Value {
    let ty = ty.to_string();
    let args = argv_of(argv);
    let r = guarded(std::panic::AssertUnwindSafe(|| {
        let derived = corpus::try_parse(&ty, args.clone());
        let via_cmd = corpus::command(&ty, false).try_get_matches_from(args.clone());
        let (dobs, dval) = match &derived {
            Ok(v) => (json!({"outcome": "Ok", "kind": "", "stderr": false, "exit": 0}), v.to_json()),
            Err(e) => (err_obs(e), empty_value()),
        };
        let (cobs, cval) = match &via_cmd {
            Ok(m) => {
                let o = json!({"outcome": "Ok", "kind": "", "stderr": false, "exit": 0, "chain": project_matches(m)});
                // field extraction from the command's own matches must give the same value
                let v = corpus::from_matches(&ty, m).map(|v| v.to_json()).unwrap_or_else(|_| empty_value());
                (o, v)
            }
            Err(e) => (err_obs(e), empty_value()),
        };
        (dobs, dval, cobs, cval)
    }));
    match r {
        Err(m) => json!({"d": di, "mode": "parse", "argv": argv, "upd": [], "panicked": true, "msg": m, "derived": {"outcome": "Panic", "kind": ""}, "value": empty_value(),
                         "cmd_obs": {"outcome": "Panic", "kind": "", "stderr": false, "exit": 0, "chain": []}, "cmd_value": empty_value(), "rt_ok": true}),
        Ok((dobs, dval, cobs, cval)) => json!({"d": di, "mode": "parse", "argv": argv, "upd": [], "panicked": false, "derived": dobs, "value": dval,
                                               "cmd_obs": obs_core(&cobs), "cmd_value": cval, "rt_ok": true}),
    }
}

pub fn derive_replay(defs: &str, input: &str, out: &str, div: &str) {
    let descs = read_ndjson(defs);
    let mut rep = Report::new();
    let mut dw = NdWriter::create(div);
    for r in read_ndjson(input) {
        rep.n += 1;
        let di = r["d"].as_u64().unwrap();
        let ty = descs[di as usize - 1]["type"].as_str().unwrap();
        if r["mode"] == "parse" {
            let mut line = parse_line(ty, di, &r["argv"]);
            let want_ok = r["obs"]["outcome"] == "Ok";
            let mut ok = line["panicked"] == false
                && obs_matches(&r["obs"], &line["cmd_obs"])                          // T::command() = DeriveCmd(desc)
                && (line["derived"]["outcome"] == "Ok") == want_ok                   // parse iff command
                && (!want_ok || (line["value"] == r["value"] && line["cmd_value"] == r["value"])); // fields = Extract
            // round trip of the value the specification printed
            if r["printable"] == true {
                rep.count("round_trips", 1);
                let back = corpus::try_parse(ty, argv_of(&r["printed"]));
                let same = matches!(&back, Ok(v) if v.to_json() == r["value"]);
                if !same { ok = false; line["rt_ok"] = json!(false); }
            }
            if !ok {
                rep.mismatch(json!({"type": ty, "argv": r["argv"].as_array().unwrap().iter().map(|w| String::from_utf8_lossy(&bytes_of(w)).into_owned()).collect::<Vec<_>>(),
                                    "want_obs": obs_core(&r["obs"]), "want_value": r["value"], "line": line}));
                dw.put(&line);
            } else if want_ok && r["argv"].as_array().unwrap().len() >= 2 {
                rep.sample(json!({"type": ty, "argv": r["argv"].as_array().unwrap().iter().map(|w| String::from_utf8_lossy(&bytes_of(w)).into_owned()).collect::<Vec<_>>(), "value": line["value"]}));
            }
        } else {
            rep.count("updates", 1);
            let (a0, au) = (argv_of(&r["argv"]), argv_of(&r["upd"]));
            let tys = ty.to_string();
            let res = guarded(std::panic::AssertUnwindSafe(|| {
                let mut v = corpus::try_parse(&tys, a0).map_err(|e| format!("{:?}", e.kind()))?;
                let before = v.to_json();
                let ur = v.try_update(au.clone());
                let uobs = match corpus::command(&tys, true).try_get_matches_from(au) {
                    Ok(m) => json!({"outcome": "Ok", "kind": "", "stderr": false, "exit": 0, "chain": project_matches(&m)}),
                    Err(e) => err_obs(&e),
                };
                Ok::<_, String>((before, v.to_json(), ur.is_ok(), uobs))
            }));
            let line = match res {
                Err(m) => json!({"d": di, "mode": "update", "argv": r["argv"], "upd": r["upd"], "panicked": true, "msg": m, "before": empty_value(), "value": empty_value(),
                                 "upd_ok": false, "cmd_obs": {"outcome": "Panic", "kind": "", "stderr": false, "exit": 0, "chain": []}, "derived": {"outcome": "Panic", "kind": ""}, "cmd_value": empty_value(), "rt_ok": true}),
                Ok(Err(k)) => json!({"d": di, "mode": "update", "argv": r["argv"], "upd": r["upd"], "panicked": false, "before": empty_value(), "value": empty_value(),
                                     "upd_ok": false, "cmd_obs": {"outcome": "Err", "kind": k, "stderr": true, "exit": 2, "chain": []}, "derived": {"outcome": "Err", "kind": ""}, "cmd_value": empty_value(), "rt_ok": true}),
                Ok(Ok((before, after, upd_ok, uobs))) => json!({"d": di, "mode": "update", "argv": r["argv"], "upd": r["upd"], "panicked": false, "before": before, "value": after,
                                                                "upd_ok": upd_ok, "cmd_obs": obs_core(&uobs), "derived": {"outcome": if upd_ok { "Ok" } else { "Err" }, "kind": ""}, "cmd_value": empty_value(), "rt_ok": true}),
            };
            let want_ok = r["upd_ok"].as_bool().unwrap_or(r["obs"]["outcome"] == "Ok");
            let ok = line["panicked"] == false && (line["upd_ok"] == true) == want_ok && (!want_ok || line["value"] == r["value"]) && obs_matches(&r["obs"], &line["cmd_obs"]);
            if !ok {
                rep.mismatch(json!({"type": ty, "argv": r["argv"].as_array().unwrap().iter().map(|w| String::from_utf8_lossy(&bytes_of(w)).into_owned()).collect::<Vec<_>>(),
                                    "upd": r["upd"].as_array().unwrap().iter().map(|w| String::from_utf8_lossy(&bytes_of(w)).into_owned()).collect::<Vec<_>>(),
                                    "want_value": r["value"], "line": line}));
                dw.put(&line);
            }
        }
    }
    // the value enum: every name and alias maps back to its variant (and nothing else does)
    let d0 = &descs[0];
    for v in d0["enum"]["variants"].as_array().unwrap() {
        let name = String::from_utf8_lossy(&bytes_of(&v["name"])).into_owned();
        let mut all = vec![name.clone()];
        for a in v["aliases"].as_array().unwrap() { all.push(String::from_utf8_lossy(&bytes_of(a)).into_owned()); }
        for s in all {
            rep.count("enum_names", 1);
            if corpus::mode_from_str(&s, false) != Some(Box::leak(name.clone().into_boxed_str())) {
                rep.mismatch(json!({"enum_name": s, "maps_to": corpus::mode_from_str(&s, false), "want": name}));
                dw.put(&json!({"d": 1, "mode": "enum", "argv": [], "upd": [], "panicked": false, "derived": {"outcome": "Err", "kind": ""}, "value": empty_value(),
                               "cmd_obs": {"outcome": "Err", "kind": "", "stderr": true, "exit": 2, "chain": []}, "cmd_value": empty_value(), "rt_ok": true}));
            }
        }
    }
    dw.finish();
    rep.write(out);
}
