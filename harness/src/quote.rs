//! C17 binding: the real generators with adversarial text in every descriptive slot; the emitted literal
//! is located between sentinels and compared with Quote.tla's expectation.
use crate::util::*;
use clap::builder::{PossibleValue, PossibleValuesParser};
use clap::{Arg, ArgAction, Command};
use clap_complete::aot::{generate, Shell};
use serde_json::{json, Value};

const SLOTS: [(&str, &str, &str); 4] = [("help", "QZHA", "QZHB"), ("about", "QZSA", "QZSB"), ("pvhelp", "QZPA", "QZPB"), ("poshelp", "QZOA", "QZOB")];

fn build(text: &str) -> Command {
    let wrap = |a: &str, b: &str| format!("{a}{text}{b}");
    Command::new("prog")
        .arg(Arg::new("zflag").short('f').long("zflag").action(ArgAction::SetTrue).help(wrap("QZHA", "QZHB")))
        .arg(
            Arg::new("zmode")
                .long("zmode")
                .action(ArgAction::Set)
                .help("plain")
                .value_parser(PossibleValuesParser::new([PossibleValue::new("zfast").help(wrap("QZPA", "QZPB")), PossibleValue::new("zslow").help("plain")])),
        )
        .arg(Arg::new("zpos").help(wrap("QZOA", "QZOB")))
        .subcommand(Command::new("zsub").visible_alias("zsubalias").about(wrap("QZSA", "QZSB")))
        .arg(Arg::new("zopt").short('o').visible_short_alias('O').long("zopt").visible_alias("zoptalias").action(ArgAction::Set).help(wrap("QZHA", "QZHB")))
}
fn script(shell: &str, text: &str) -> Result<Vec<u8>, String> {
    let (shell, text) = (shell.to_string(), text.to_string());
    guarded(std::panic::AssertUnwindSafe(move || {
        let mut cmd = build(&text);
        let mut buf = vec![];
        match shell.as_str() {
            "bash" => generate(Shell::Bash, &mut cmd, "prog", &mut buf),
            "zsh" => generate(Shell::Zsh, &mut cmd, "prog", &mut buf),
            "fish" => generate(Shell::Fish, &mut cmd, "prog", &mut buf),
            "powershell" => generate(Shell::PowerShell, &mut cmd, "prog", &mut buf),
            "elvish" => generate(Shell::Elvish, &mut cmd, "prog", &mut buf),
            _ => generate(clap_complete_nushell::Nushell, &mut cmd, "prog", &mut buf),
        }
        buf
    }))
}
fn find(h: &[u8], n: &[u8], from: usize) -> Option<usize> {
    if from > h.len() { return None; }
    h[from..].windows(n.len()).position(|w| w == n).map(|p| p + from)
}
/// every literal emitted between the slot's sentinels (a slot may be written several times, e.g. -f and --flag)
fn between(script: &[u8], a: &str, b: &str) -> Vec<Vec<u8>> {
    let mut out = vec![];
    let mut pos = 0;
    while let Some(i) = find(script, a.as_bytes(), pos) {
        let start = i + a.len();
        match find(script, b.as_bytes(), start) {
            Some(j) => { out.push(script[start..j].to_vec()); pos = j + b.len(); }
            None => { out.push(script[start..].to_vec()); break; }
        }
    }
    out
}

pub fn quote_replay(input: &str, out: &str, div: &str) {
    let mut rep = Report::new();
    let mut dw = NdWriter::create(div);
    let plain_bash = script("bash", "plain").unwrap_or_default();
    for r in read_ndjson(input) {
        rep.n += 1;
        let s = bytes_of(&r["s"]);
        let Ok(text) = String::from_utf8(s.clone()) else { rep.count("non_utf8_skipped", 1); continue };
        for shell in ["bash", "zsh", "fish", "powershell", "elvish", "nushell"] {
            rep.count("scripts", 1);
            match script(shell, &text) {
                Err(m) => {
                    rep.mismatch(json!({"shell": shell, "s": text, "panic": m}));
                    dw.put(&json!({"shell": shell, "slot": "help", "s": r["s"], "e": [], "panicked": true, "bash_same": true}));
                }
                Ok(sc) => {
                    if shell == "bash" {
                        // bash scripts carry no descriptive text at all
                        if sc != plain_bash || find(&sc, b"QZ", 0).is_some() {
                            rep.mismatch(json!({"shell": shell, "s": text, "bash_script_depends_on_text": true}));
                            dw.put(&json!({"shell": shell, "slot": "help", "s": r["s"], "e": [], "panicked": false, "bash_same": false}));
                        }
                        continue;
                    }
                    for (slot, a, b) in SLOTS {
                        let want = r["want"].as_array().unwrap().iter().find(|w| w["shell"] == shell && w["slot"] == slot);
                        let lits = between(&sc, a, b);
                        match want {
                            None => {}
                            Some(w) => {
                                let we = bytes_of(&w["e"]);
                                if lits.is_empty() { rep.count("slot_not_found", 1); }
                                for e in &lits {
                                    rep.count("literals", 1);
                                    if *e != we || w["verdict"] != "ok" {
                                        if *e != we { rep.mismatch(json!({"shell": shell, "slot": slot, "s": text, "want": String::from_utf8_lossy(&we), "got": String::from_utf8_lossy(e)})); }
                                        dw.put(&json!({"shell": shell, "slot": slot, "s": r["s"], "e": jb(e), "panicked": false, "bash_same": true}));
                                    } else if shell == "zsh" && slot == "help" && s.len() >= 3 {
                                        rep.sample(json!({"shell": shell, "slot": slot, "text": text, "emitted": String::from_utf8_lossy(e)}));
                                    }
                                }
                            }
                        }
                    }
                }
            }
        }
    }
    dw.finish();
    rep.write(out);
}
