//! C13 / C14 binding: lock-step replay of TLC behaviours on clap_lex, and
//! recording of random runs of clap_lex for trace validation.
use crate::util::*;
use clap_lex::{OsStrExt as _, ParsedArg, RawArgs, SeekFrom, ShortFlags};
use rand::{rngs::StdRng, Rng, SeedableRng};
use serde_json::{json, Value};
use std::ffi::OsString;

fn res(k: &str, v: Value) -> Value {
    json!({"k": k, "v": v})
}

pub fn classify(arg: &ParsedArg<'_>) -> Value {
    let to_long = match arg.to_long() {
        None => json!({"some": false, "flag": [], "flagOk": false, "hasValue": false, "value": []}),
        Some((flag, value)) => {
            let (fb, ok) = match flag {
                Ok(s) => (jb(s.as_bytes()), true),
                Err(o) => (jbytes(o), false),
            };
            json!({"some": true, "flag": fb, "flagOk": ok, "hasValue": value.is_some(),
                   "value": value.map(jbytes).unwrap_or(json!([]))})
        }
    };
    // to_short's remainder is observable as the first next_value_os of a fresh iterator
    let to_short = match arg.to_short() {
        None => json!({"some": false, "rem": []}),
        Some(mut s) => json!({"some": true, "rem": s.next_value_os().map(jbytes).unwrap_or(json!([]))}),
    };
    json!({
        "empty": arg.is_empty(), "stdio": arg.is_stdio(), "escape": arg.is_escape(),
        "long": arg.is_long(), "short": arg.is_short(), "negnum": arg.is_negative_number(),
        "utf8": arg.to_value().is_ok(),
        "to_long": to_long, "to_short": to_short,
    })
}

pub fn sf_apply(sf: &mut ShortFlags<'_>, op: &str) -> Value {
    match op {
        "next_flag" => match sf.next_flag() {
            None => res("none", json!([])),
            Some(Ok(c)) => res("ok", jb(c.to_string().as_bytes())),
            Some(Err(o)) => res("err", jbytes(o)),
        },
        "next_value_os" => match sf.next_value_os() {
            None => res("none", json!([])),
            Some(o) => {
                res("ok", jbytes(o))
            }
        },
        "advance0" | "advance1" | "advance2" | "advance3" => {
            let n = op.as_bytes()[7] - b'0';
            match sf.advance_by(n as usize) {
                Ok(()) => res("ok", json!([])),
                Err(i) => res("err", json!([i])),
            }
        }
        "is_empty" => res(if sf.is_empty() { "true" } else { "false" }, json!([])),
        "is_negative_number" => res(if sf.is_negative_number() { "true" } else { "false" }, json!([])),
        _ => panic!("unknown op {op}"),
    }
}

pub const SF_OPS: [&str; 8] = [
    "next_flag", "next_value_os", "advance0", "advance1", "advance2", "advance3", "is_empty",
    "is_negative_number",
];

/// observation of one byte string under one call path, with the `next` fan-out
fn observe(b: &[u8], path: &[String], fanout: bool) -> Value {
    let raw = RawArgs::new([os(b)]);
    let mut cur = raw.cursor();
    let arg = raw.next(&mut cur).unwrap();
    let cls = classify(&arg);
    let mut rets = vec![];
    let mut next = serde_json::Map::new();
    let has = arg.to_short().is_some();
    if let Some(mut sf) = arg.to_short() {
        for op in path {
            rets.push(sf_apply(&mut sf, op));
        }
        if fanout {
            for op in SF_OPS {
                let mut c = sf.clone();
                next.insert(op.to_string(), sf_apply(&mut c, op));
            }
        }
    }
    json!({"b": jb(b), "cls": cls, "hasSF": has, "path": path, "rets": rets, "next": next, "panicked": false})
}

pub fn c13_replay(input: &str, out: &str) {
    let mut rep = Report::new();
    for rec in read_ndjson(input) {
        rep.n += 1;
        let b = bytes_of(&rec["b"]);
        let path: Vec<String> =
            rec["path"].as_array().unwrap().iter().map(|x| x.as_str().unwrap().to_string()).collect();
        let got = guarded(|| observe(&b, &path, true));
        match got {
            Err(msg) => rep.mismatch(json!({"rec": rec, "panic": msg, "at": last_panic_loc()})),
            Ok(g) => {
                let mut ok = g["cls"] == rec["cls"] && g["hasSF"] == rec["hasSF"];
                if rec["hasSF"].as_bool().unwrap_or(false) {
                    ok = ok && g["rets"] == rec["rets"] && g["next"] == rec["next"];
                    rep.count("sf_transitions", SF_OPS.len() as u64);
                }
                if !ok {
                    rep.mismatch(json!({"rec": rec, "got": g}));
                } else {
                    rep.sample(g);
                }
            }
        }
    }
    rep.write(out);
}

const ALPHA: [u8; 14] = [45, 61, 97, 49, 46, 101, 69, 195, 169, 226, 130, 172, 255, 0xF0];

pub fn rand_bytes(rng: &mut StdRng, maxlen: usize) -> Vec<u8> {
    let n = rng.gen_range(0..=maxlen);
    let mut v = Vec::with_capacity(n + 2);
    if rng.gen_bool(0.7) {
        v.push(b'-');
        if rng.gen_bool(0.2) {
            v.push(b'-');
        }
    }
    // valid multi-byte chunks, boundary bytes, and fully random bytes
    while v.len() < n {
        match rng.gen_range(0..10) {
            0 => v.extend_from_slice("é".as_bytes()),
            1 => v.extend_from_slice("€".as_bytes()),
            2 => v.extend_from_slice("😀".as_bytes()),
            3 => v.push(rng.gen()),
            _ => v.push(ALPHA[rng.gen_range(0..ALPHA.len())]),
        }
    }
    v
}

pub fn c13_record(seed: u64, n: usize, maxlen: usize, maxcalls: usize, out: &str) {
    let mut rng = StdRng::seed_from_u64(seed);
    let mut w = NdWriter::create(out);
    for _ in 0..n {
        let b = rand_bytes(&mut rng, maxlen);
        let k = rng.gen_range(0..=maxcalls);
        let path: Vec<String> = (0..k)
            .map(|_| {
                // bias towards data ops so that long clusters are actually walked
                let i = if rng.gen_bool(0.5) { 0 } else { rng.gen_range(0..SF_OPS.len()) };
                SF_OPS[i].to_string()
            })
            .collect();
        let v = match guarded(|| observe(&b, &path, false)) {
            Ok(v) => v,
            Err(msg) => json!({"b": jb(&b), "path": path, "panic": msg, "at": last_panic_loc(),
                               "panicked": true}),
        };
        w.put(&v);
    }
    w.finish();
}

// ------------------------------------------------------------------ C14
fn item_os(i: u64) -> OsString {
    OsString::from(format!("i{i}"))
}
fn item_id(s: &std::ffi::OsStr) -> Value {
    let t = s.to_string_lossy();
    json!(t[1..].parse::<u64>().unwrap_or(999))
}
fn off_val(name: &str, len: usize) -> i64 {
    let l = len as i64;
    match name {
        "MIN" => i64::MIN,
        "-L-1" => -l - 1,
        "-L" => -l,
        "-2" => -2,
        "-1" => -1,
        "0" => 0,
        "1" => 1,
        "2" => 2,
        "L-1" => l - 1,
        "L" => l,
        "L+1" => l + 1,
        "MAX" => i64::MAX,
        _ => panic!("off {name}"),
    }
}
/// Apply one model operation to the real RawArgs; `len` is tracked by the caller
/// (RawArgs does not expose it) and is what the symbolic offsets are resolved against.
fn cur_apply(raw: &mut RawArgs, cur: &mut clap_lex::ArgCursor, len: &mut usize, o: &Value) -> Value {
    match o["op"].as_str().unwrap() {
        "next" => match raw.next_os(cur) {
            Some(s) => res("some", json!([item_id(s)])),
            None => res("none", json!([])),
        },
        "peek" => match raw.peek_os(cur) {
            Some(s) => res("some", json!([item_id(s)])),
            None => res("none", json!([])),
        },
        "remaining" => {
            let v: Vec<Value> = raw.remaining(cur).map(item_id).collect();
            res("list", Value::Array(v))
        }
        "is_end" => res(if raw.is_end(cur) { "true" } else { "false" }, json!([])),
        "seek" => {
            let off = off_val(o["off"].as_str().unwrap(), *len);
            let pos = match o["whence"].as_str().unwrap() {
                "start" => SeekFrom::Start(if o["off"] == "MAX" { u64::MAX } else { off as u64 }),
                "end" => SeekFrom::End(off),
                "cur" => SeekFrom::Current(off),
                w => panic!("whence {w}"),
            };
            raw.seek(cur, pos);
            res("unit", json!([]))
        }
        "insert" => {
            let xs: Vec<OsString> =
                o["xs"].as_array().unwrap().iter().map(|x| item_os(x.as_u64().unwrap())).collect();
            *len += xs.len();
            raw.insert(cur, xs);
            res("unit", json!([]))
        }
        op => panic!("op {op}"),
    }
}
fn probe(raw: &RawArgs, cur: &clap_lex::ArgCursor) -> Value {
    let mut c = cur.clone();
    Value::Array(raw.remaining(&mut c).map(item_id).collect())
}

pub fn c14_cursor_replay(input: &str, out: &str) {
    let mut rep = Report::new();
    for rec in read_ndjson(input) {
        rep.n += 1;
        let n0 = rec["n0"].as_u64().unwrap();
        let r = guarded(|| {
            let mut raw = RawArgs::new((1..=n0).map(item_os));
            let mut cur = raw.cursor();
            let mut len = n0 as usize;
            let mut rets = vec![];
            for o in rec["path"].as_array().unwrap() {
                rets.push(cur_apply(&mut raw, &mut cur, &mut len, o));
            }
            let mut fan = vec![];
            for f in rec["fan"].as_array().unwrap() {
                let mut raw2 = raw.clone();
                let mut cur2 = cur.clone();
                let mut len2 = len;
                let step = guarded(std::panic::AssertUnwindSafe(|| {
                    let r = cur_apply(&mut raw2, &mut cur2, &mut len2, &f["o"]);
                    let p = probe(&raw2, &cur2);
                    (r, p)
                }));
                match step {
                    Ok((r, p)) => fan.push(json!({"o": f["o"], "r": r, "probe": p})),
                    Err(m) => fan.push(json!({"o": f["o"], "panic": m, "at": last_panic_loc()})),
                }
            }
            (rets, fan)
        });
        match r {
            Err(msg) => rep.mismatch(json!({"rec": {"n0": n0, "path": rec["path"]}, "panic": msg, "at": last_panic_loc(), "kind": "path-panic"})),
            Ok((rets, fan)) => {
                if Value::Array(rets.clone()) != rec["rets"] {
                    rep.mismatch(json!({"rec": {"n0": n0, "path": rec["path"], "rets": rec["rets"]}, "got": rets, "kind": "path"}));
                }
                // fan is a set in the spec: match by op
                for g in &fan {
                    rep.count("transitions", 1);
                    let want = rec["fan"].as_array().unwrap().iter().find(|w| w["o"] == g["o"]).unwrap();
                    if g.get("panic").is_some() {
                        rep.mismatch(json!({"rec": {"n0": n0, "path": rec["path"], "op": g["o"]}, "panic": g["panic"], "at": g["at"], "kind": "panic"}));
                    } else if g["r"] != want["r"] || g["probe"] != want["probe"] {
                        rep.mismatch(json!({"rec": {"n0": n0, "path": rec["path"], "op": g["o"], "want": want}, "got": g, "kind": "step"}));
                    }
                }
                rep.sample(json!({"n0": n0, "path": rec["path"], "rets": rec["rets"]}));
            }
        }
    }
    rep.write(out);
}

fn helpers_obs(h: &[u8], n: &str) -> Value {
    let hs = os(h);
    let hs = hs.as_os_str();
    let find = hs.find(n).map(|x| x as i64).unwrap_or(-1);
    let strip = match hs.strip_prefix(n) {
        Some(v) => json!({"some": true, "v": jbytes(v)}),
        None => json!({"some": false, "v": []}),
    };
    let so = match hs.split_once(n) {
        Some((a, b)) => json!({"some": true, "a": jbytes(a), "b": jbytes(b)}),
        None => json!({"some": false, "a": [], "b": []}),
    };
    let split: Vec<Value> = hs.split(n).map(jbytes).collect();
    json!({"h": jb(h), "n": jb(n.as_bytes()), "find": find, "contains": hs.contains(n),
           "starts_with": hs.starts_with(n), "strip": strip, "split_once": so, "split": split})
}

pub fn c14_helpers_replay(input: &str, out: &str) {
    let mut rep = Report::new();
    for rec in read_ndjson(input) {
        rep.n += 1;
        let h = bytes_of(&rec["h"]);
        let n = String::from_utf8(bytes_of(&rec["n"])).expect("needle utf8");
        match guarded(|| helpers_obs(&h, &n)) {
            Err(msg) => rep.mismatch(json!({"rec": rec, "panic": msg, "at": last_panic_loc()})),
            Ok(g) => {
                if g != rec {
                    rep.mismatch(json!({"rec": rec, "got": g}));
                } else {
                    rep.sample(g);
                }
            }
        }
    }
    rep.write(out);
}

/// random recording for trace validation: one line per run (cursor history or helper call)
pub fn c14_record(seed: u64, n: usize, maxops: usize, out: &str) {
    let mut rng = StdRng::seed_from_u64(seed);
    let mut w = NdWriter::create(out);
    let offs = ["MIN", "-L-1", "-L", "-2", "-1", "0", "1", "2", "L-1", "L", "L+1", "MAX"];
    let starts = ["0", "1", "2", "L-1", "L", "L+1", "MAX"];
    for i in 0..n {
        if i % 2 == 0 {
            let n0 = rng.gen_range(0..=6u64);
            let k = rng.gen_range(0..=maxops);
            let mut raw = RawArgs::new((1..=n0).map(item_os));
            let mut cur = raw.cursor();
            let mut len = n0 as usize;
            let mut path = vec![];
            let mut rets = vec![];
            let mut probes = vec![];
            let mut panicked = Value::Null;
            for _ in 0..k {
                let o = match rng.gen_range(0..10) {
                    0 | 1 | 2 => json!({"op": "next", "whence": "", "off": "", "xs": []}),
                    3 => json!({"op": "peek", "whence": "", "off": "", "xs": []}),
                    4 => json!({"op": "remaining", "whence": "", "off": "", "xs": []}),
                    5 => json!({"op": "is_end", "whence": "", "off": "", "xs": []}),
                    6 => {
                        let m = rng.gen_range(0..3usize);
                        let xs: Vec<u64> = (0..m).map(|j| 100 + (path.len() as u64) * 3 + j as u64).collect();
                        json!({"op": "insert", "whence": "", "off": "", "xs": xs})
                    }
                    7 => loop {
                        let f = starts[rng.gen_range(0..starts.len())];
                        if off_val(f, len) >= 0 {
                            break json!({"op": "seek", "whence": "start", "off": f, "xs": []});
                        }
                    },
                    8 => json!({"op": "seek", "whence": "end", "off": offs[rng.gen_range(0..offs.len())], "xs": []}),
                    _ => json!({"op": "seek", "whence": "cur", "off": offs[rng.gen_range(0..offs.len())], "xs": []}),
                };
                let step = guarded(std::panic::AssertUnwindSafe(|| {
                    let r = cur_apply(&mut raw, &mut cur, &mut len, &o);
                    (r, probe(&raw, &cur))
                }));
                path.push(o);
                match step {
                    Ok((r, p)) => {
                        rets.push(r);
                        probes.push(p);
                    }
                    Err(m) => {
                        panicked = json!({"msg": m, "at": last_panic_loc()});
                        break;
                    }
                }
            }
            w.put(&json!({"t": "cursor", "n0": n0, "path": path, "rets": rets, "probes": probes,
                          "panicked": !panicked.is_null(), "panic": if panicked.is_null() { json!({}) } else { panicked }}));
        } else {
            // half of the haystacks come from a tiny alphabet so that repeated and
            // self-overlapping patterns actually occur
            let h = if rng.gen_bool(0.5) {
                let n = rng.gen_range(0..=14);
                (0..n).map(|_| b"aab-=="[rng.gen_range(0..6)]).collect::<Vec<u8>>()
            } else {
                rand_bytes(&mut rng, 12)
            };
            let needles = ["a", "=", "aa", "ab", "--", "€", "é", "-", "a=", "e", "aab", "aaab", "abab", "aba",
                           "--=", "==a", "-=-", "bab", "aaa"];
            let nd = needles[rng.gen_range(0..needles.len())];
            match guarded(|| helpers_obs(&h, nd)) {
                Ok(mut v) => {
                    v["t"] = json!("helpers");
                    v["panicked"] = json!(false);
                    w.put(&v);
                }
                Err(m) => w.put(&json!({"t": "helpers", "h": jb(&h), "n": jb(nd.as_bytes()), "panicked": true,
                                        "panic": {"msg": m, "at": last_panic_loc()}})),
            }
        }
    }
    w.finish();
}
