"""Common driver machinery for /verif/bin/check (see DESIGN.md §3).

Exit codes: 0 property held on everything explored (KNOWN-FINDING lines allowed),
1 VIOLATION (line printed, replay file written), 2 tool error / timeout.
"""
import hashlib, json, os, re, shutil, subprocess, sys, time

VERIF = os.path.dirname(os.path.dirname(os.path.abspath(__file__)))
REPO = os.environ.get("VERIF_REPO", "/repo")
WORK = os.environ.get("VERIF_WORK") or os.path.join(VERIF, ".work")
SPEC = os.path.join(VERIF, "spec")
HARNESS = os.path.join(VERIF, "harness")
EVID = os.path.join(VERIF, "evidence") if not os.environ.get("VERIF_EVID_SUFFIX") else os.path.join(WORK, "evidence" + os.environ["VERIF_EVID_SUFFIX"])
REPLAYS = os.path.join(EVID, "replays")
TLA_JAR = "/opt/veriftools/tla/tla2tools.jar:/opt/veriftools/tla/CommunityModules-deps.jar"


class ToolError(Exception):
    pass


def log(*a):
    print(*a, file=sys.stderr, flush=True)


def sh(cmd, timeout=None, env=None, cwd=None, check=True, capture=True):
    e = dict(os.environ)
    if env:
        e.update(env)
    try:
        p = subprocess.run(cmd, cwd=cwd, env=e, timeout=timeout,
                           stdout=subprocess.PIPE if capture else None,
                           stderr=subprocess.STDOUT if capture else None, text=True, errors="replace")
    except subprocess.TimeoutExpired as ex:
        raise ToolError("timeout after %ss: %s" % (timeout, " ".join(map(str, cmd))))
    if check and p.returncode != 0:
        raise ToolError("command failed (%d): %s\n%s" % (p.returncode, " ".join(map(str, cmd)), (p.stdout or "")[-4000:]))
    return p


_built = {}


def cargo_build(profile="dev"):
    """Build the harness against /repo's current working tree (path deps)."""
    if profile in _built:
        return _built[profile]
    t0 = time.time()
    cmd = ["cargo", "build", "--offline", "--quiet"]
    if profile == "release":
        cmd.append("--release")
    env = {"CARGO_NET_OFFLINE": "true"}
    if REPO != "/repo":
        # scratch copy of the repository (selftest / seeded mutants): patch the path deps
        env["VERIF_REPO"] = REPO
    p = sh(cmd, cwd=harness_dir(), env=env, timeout=1800, check=False)
    if p.returncode != 0:
        raise ToolError("harness build failed:\n" + p.stdout[-6000:])
    exe = os.path.join(harness_dir(), "target", "release" if profile == "release" else "debug", "vh")
    _built[profile] = exe
    log("[build] harness (%s) %.1fs" % (profile, time.time() - t0))
    return exe


def harness_dir():
    """/verif/harness, or a scratch copy re-targeted at VERIF_REPO."""
    if REPO == "/repo":
        return HARNESS
    d = os.path.join(os.environ.get("VERIF_SCRATCH", "/tmp"), "vh-" + hashlib.sha1(REPO.encode()).hexdigest()[:10])
    if not os.path.exists(os.path.join(d, "Cargo.toml")):
        os.makedirs(d, exist_ok=True)
        for f in ("Cargo.toml", "Cargo.lock"):
            s = open(os.path.join(HARNESS, f)).read()
            if f == "Cargo.toml":
                s = s.replace('"/repo', '"' + REPO)
            open(os.path.join(d, f), "w").write(s)
        shutil.copytree(os.path.join(HARNESS, ".cargo"), os.path.join(d, ".cargo"), dirs_exist_ok=True)
    # always refresh sources
    if os.path.exists(os.path.join(d, "src")):
        shutil.rmtree(os.path.join(d, "src"))
    shutil.copytree(os.path.join(HARNESS, "src"), os.path.join(d, "src"))
    return d


def vh(args, timeout=1800, profile="dev", env=None):
    exe = cargo_build(profile)
    p = sh([exe] + [str(a) for a in args], timeout=timeout, check=False, env=env)
    if p.returncode != 0:
        raise ToolError("vh %s failed (%d):\n%s" % (args[0], p.returncode, p.stdout[-4000:]))
    return p.stdout


def workdir(name):
    d = os.path.join(WORK, name)
    if os.path.exists(d):
        shutil.rmtree(d)
    os.makedirs(d)
    return d


class TlcResult:
    def __init__(self):
        self.states = 0
        self.distinct = 0
        self.replay = []      # parsed REPLAY json objects
        self.mismatch = []    # parsed MISMATCH payloads
        self.out = ""
        self.ok = False
        self.violated = None  # invariant name if TLC reports a violation
        self.wall = 0.0


_REPLAY_RE = re.compile(r'^<<"(REPLAY|MISMATCH|INFO)", (.*)>>$')


def parse_tla_payload(rest):
    """`"json-string"` or `n, "json-string"` -> python object(s)."""
    parts = []
    # payload is a comma separated list of TLA values; we only use ints and strings
    i = 0
    while i < len(rest):
        if rest[i] == '"':
            j = i + 1
            while j < len(rest):
                if rest[j] == '\\':
                    j += 2
                    continue
                if rest[j] == '"':
                    break
                j += 1
            s = json.loads(rest[i:j + 1])
            try:
                parts.append(json.loads(s))
            except Exception:
                parts.append(s)
            i = j + 1
        elif rest[i] in ", ":
            i += 1
        else:
            j = i
            while j < len(rest) and rest[j] not in ", ":
                j += 1
            tok = rest[i:j]
            try:
                parts.append(int(tok))
            except ValueError:
                parts.append(tok)
            i = j
    return parts


def tlc(module, cfg, name, workers=8, env=None, timeout=900, simulate=None, depth=None,
        replay_out=None, heap="6g", dfs=False, seed=None, extra=None):
    """Run TLC on spec/<module>.tla with spec/<cfg>. REPLAY lines are streamed to
    `replay_out` (NDJSON) when given. Returns TlcResult. Raises ToolError on tool failure."""
    meta = os.path.join(WORK, "tlc-" + name)
    if os.path.exists(meta):
        shutil.rmtree(meta)
    os.makedirs(meta)
    jopts = "-Xss1g"
    if dfs:
        jopts += " -Dtlc2.tool.queue.IStateQueue=StateDeque"
    cmd = ["java", "-XX:+UseParallelGC", "-Xmx" + heap] + jopts.split() + ["-cp", TLA_JAR, "tlc2.TLC",
           "-workers", str(workers), "-metadir", meta, "-cleanup", "-noGenerateSpecTE",
           "-config", cfg]
    if simulate:
        cmd += ["-simulate", "num=%d" % simulate]
    if depth:
        cmd += ["-depth", str(depth)]
    if seed is not None:
        cmd += ["-seed", str(seed)]
    if extra:
        cmd += extra
    cmd.append(module)
    e = dict(os.environ)
    e.pop("JAVA_TOOL_OPTIONS", None)
    if env:
        e.update({k: str(v) for k, v in env.items()})
    res = TlcResult()
    t0 = time.time()
    rf = open(replay_out, "w") if replay_out else None
    other = []
    try:
        p = subprocess.Popen(["timeout", str(timeout)] + cmd, cwd=SPEC, env=e, stdout=subprocess.PIPE,
                             stderr=subprocess.STDOUT, text=True, errors="replace")
        nrep = 0
        for line in p.stdout:
            line = line.rstrip("\n")
            m = _REPLAY_RE.match(line)
            if m:
                kind, rest = m.group(1), m.group(2)
                if kind == "REPLAY":
                    # fast path: a single JSON string
                    s = json.loads(rest)
                    nrep += 1
                    if rf:
                        rf.write(s + "\n")
                    elif len(res.replay) < 100000:
                        res.replay.append(json.loads(s))
                elif kind == "MISMATCH":
                    res.mismatch.append(parse_tla_payload(rest))
                else:
                    other.append(line)
            else:
                other.append(line)
        p.wait()
        rc = p.returncode
    finally:
        if rf:
            rf.close()
        shutil.rmtree(meta, ignore_errors=True)
    res.wall = time.time() - t0
    res.nreplay = nrep
    res.out = "\n".join(other)
    m = re.search(r"(\d+) states generated, (\d+) distinct states found", res.out)
    if m:
        res.states, res.distinct = int(m.group(1)), int(m.group(2))
    else:
        m = re.search(r"The number of states generated: (\d+)", res.out)
        if m:
            res.states = res.distinct = int(m.group(1))
    if rc == 124:
        raise ToolError("TLC timeout (%ss) on %s/%s" % (timeout, module, cfg))
    m = re.search(r"Invariant (\S+) is violated", res.out)
    if m:
        res.violated = m.group(1)
    elif "is violated" in res.out or "Temporal properties were violated" in res.out:
        res.violated = "property"
    res.ok = ("No error has been found" in res.out or (simulate and rc in (0,)) ) and not res.violated
    if simulate and not res.violated and "Error:" not in res.out:
        res.ok = True
    if not res.ok and not res.violated:
        raise ToolError("TLC failed on %s/%s (rc=%s):\n%s" % (module, cfg, rc, res.out[-5000:]))
    log("[tlc] %s %s: %d generated / %d distinct, %d replay lines, %.1fs%s" % (
        module, os.path.basename(cfg), res.states, res.distinct, nrep, res.wall,
        " VIOLATED " + str(res.violated) if res.violated else ""))
    return res


def tlc_trace(module, cfg, name, trace_file, env=None, timeout=900, heap="4g"):
    """Trace validation: single worker, depth-first queue, trace path in IOEnv.TRACE."""
    e = {"TRACE": trace_file}
    if env:
        e.update(env)
    return tlc(module, cfg, name, workers=1, env=e, timeout=timeout, dfs=True, heap=heap)


def count_lines(path):
    n = 0
    with open(path) as f:
        for _ in f:
            n += 1
    return n


def load_known():
    p = os.path.join(VERIF, "known_findings.json")
    if not os.path.exists(p):
        return []
    return json.load(open(p)).get("findings", [])


class Check:
    """Accumulates evidence and verdicts for one property run."""

    def __init__(self, pid, tier, seed):
        self.pid, self.tier, self.seed = pid, tier, seed
        self.t0 = time.time()
        self.states = 0
        self.transitions = 0
        self.traces = 0
        self.evaluations = 0
        self.nontrivial = 0
        self.samples = []
        self.extra = {}
        self.assumptions = []
        self.violations = []   # (summary, payload)
        self.known_hits = {}
        self.rule = ""
        self.exhaustive = None
        # replay files of an earlier run of this check are stale once it runs again
        import glob
        for f in glob.glob(os.path.join(REPLAYS, "%s-*.json" % pid)):
            os.remove(f)

    def add_tlc(self, r):
        self.states += r.distinct
        self.transitions += r.states

    def sample(self, s):
        if len(self.samples) < 6:
            self.samples.append(s)

    def violation(self, what, payload):
        """Record a violation unless it matches a known finding."""
        for k in load_known():
            if k.get("status", "open") != "open" or k["property"] != self.pid:
                continue
            if match_known(k, what, payload):
                self.known_hits.setdefault(k["id"], [k, 0])[1] += 1
                return False
        self.violations.append((what, payload))
        return True

    def finish(self):
        os.makedirs(EVID, exist_ok=True)
        wall = time.time() - self.t0
        cov = {
            "states": self.states, "transitions": self.transitions,
            "traces_validated_against_impl": self.traces,
            "evaluations": self.evaluations, "distinct_nontrivial": self.nontrivial,
            "rule": self.rule, "samples": self.samples[:6],
        }
        if self.exhaustive is not None:
            cov["exhaustive"] = self.exhaustive
        cov.update(self.extra)
        cov["known_findings_hit"] = {k: v[1] for k, v in self.known_hits.items()}
        ev = {"property_id": self.pid, "tier": self.tier, "seed": self.seed, "level": "model_checking",
              "coverage": cov, "assumptions": self.assumptions, "wall_s": round(wall, 2),
              "violations": len(self.violations)}
        with open(os.path.join(EVID, self.pid + ".json"), "w") as f:
            json.dump(ev, f, indent=1, sort_keys=True)
            f.write("\n")
        for kid, (k, n) in sorted(self.known_hits.items()):
            print("KNOWN-FINDING: property=%s %s (%s; %d hits)" % (self.pid, k["what"], kid, n))
        if self.violations:
            os.makedirs(REPLAYS, exist_ok=True)
            for i, (what, payload) in enumerate(self.violations[:5]):
                path = os.path.join(REPLAYS, "%s-%d.json" % (self.pid, i))
                with open(path, "w") as f:
                    json.dump({"property": self.pid, "what": what, "case": payload}, f, indent=1)
                print("VIOLATION property=%s replay=%s" % (self.pid, path))
                log("  " + what)
            return 1
        print("OK property=%s tier=%s states=%d transitions=%d traces=%d wall=%.1fs" % (
            self.pid, self.tier, self.states, self.transitions, self.traces, wall))
        return 0


def match_known(k, what, payload):
    """A known finding matches by a list of (json-path, regex) pairs over the payload and
    an optional regex on the summary; all must match."""
    m = k.get("match", {})
    if "what" in m and not re.search(m["what"], what):
        return False
    text = json.dumps(payload, sort_keys=True)
    for rx in m.get("payload_all", []):
        if not re.search(rx, text):
            return False
    return True


def judge_trace(chk, module, cfg, name, trace_file, describe, benign=("model",), timeout=3000, count=True):
    """Validate an NDJSON trace with a trace spec whose Next prints <<"MISMATCH", line, verdict>>.
    Verdict strings listed in `benign` are model divergences (counted, never reported); every other
    verdict is a violation of the property on the implementation's own observation."""
    n = count_lines(trace_file)
    if n == 0:
        return 0
    r = tlc_trace(module, cfg, name, trace_file, timeout=timeout, env={"DEFS": os.environ.get("DEFS", "")})
    chk.add_tlc(r)
    if count:
        chk.traces += n
    lines = None
    for mm in r.mismatch:
        ln, verdict = mm[0], mm[1]
        if lines is None:
            lines = [json.loads(x) for x in open(trace_file)]
        rec = lines[ln - 1]
        if verdict in benign:
            chk.extra["benign_divergences"] = chk.extra.get("benign_divergences", 0) + 1
            bs = chk.extra.setdefault("benign_samples", [])
            if len(bs) < 3:
                bs.append(rec)
            continue
        chk.violation("%s: %s" % (verdict, describe(rec)), {"verdict": verdict, "rec": rec})
    return n
