import json, os

ROOT = os.path.dirname(os.path.dirname(os.path.abspath(__file__)))
ALL = ["C%02d" % i for i in range(1, 21)]

COMMON_NOTE = ("Trusted base: TLC 1.8 and the CommunityModules Json/IOUtils modules; the Rust harness /verif/harness (projection of "
               "clap's public API to JSON); bounds of the exhaustive configurations as stated in the evidence file. ")

CHECKS = {
    "C13": dict(
        text=("TLC checks on Lex.tla (a branch-by-branch transcription of clap_lex ParsedArg/ShortFlags/is_number over byte "
              "sequences) that the declarative C13 predicates hold for every byte string over a UTF-8 boundary alphabet and every "
              "interleaving of ShortFlags calls within the bound; every explored (string, iterator state) is replayed on the real "
              "clap_lex with the fan-out of all calls, and random longer strings x call sequences recorded from clap_lex are "
              "validated against the specification by Trace_C13.tla, which also evaluates the declarative predicates on the "
              "implementation's observation."),
        ref="§5.C13",
        note="Cannot observe undefined behaviour inside the unsafe re-slicing as such; decides that every split index is a character boundary and every returned piece is right.",
        technique="TLA+ spec (Lex.tla) model-checked with TLC; TLC-generated behaviours replayed on clap_lex; recorded traces validated by a TLA+ trace spec",
    ),
    "C14": dict(
        text=("Cursor.tla states RawArgs/ArgCursor as an index into a growable list and the seek arithmetic as written; Bytes.tla "
              "gives the byte-level meaning of find/contains/starts_with/strip_prefix/split/split_once. TLC checks the algebraic "
              "laws for all cursor histories and haystack x needle pairs within the bound, every explored state is replayed on the "
              "real clap_lex with the fan-out of all operations (panics are caught and are violations), and random histories "
              "recorded from clap_lex are validated by Trace_C14.tla."),
        ref="§5.C14",
        note="64-bit extremes are classes (scaled in TLC, true i64::MIN/MAX and u64::MAX in the harness).",
        technique="TLA+ spec (Cursor.tla, Bytes.tla) model-checked with TLC; lock-step replay of TLC behaviours on clap_lex; trace validation of recorded histories",
    ),
}

CHECKS["C20"] = dict(
    text=("Wrap.tla transcribes find_words_ascii_space, LineWrapper::wrap (carry-over indent, trailing-space trimming, byte/column "
          "bookkeeping), display_width with its control-sequence flag and StyledStr::wrap's segmentation; the declarative property "
          "(an alignment that only deletes inter-word spaces before an inserted break + indent, equal non-space content, width bound "
          "for plain text, escapes intact for styled text) is checked by TLC for every text over 8 symbols up to the bound x widths; "
          "every (text, width) is rendered through the real code via the public help template and compared; random long texts "
          "recorded from the real code are validated by Trace_C20.tla, which evaluates the declarative predicates on the "
          "implementation's output (a different but property-satisfying wrapping is a benign divergence)."),
    ref="§5.C20",
    note="Width 0 of the internal function is not reachable through the public API (term_width(0) means unlimited).",
    technique="TLA+ spec (Wrap.tla) model-checked with TLC; TLC-enumerated cases replayed on the real wrappers; recorded outputs validated by a TLA+ trace spec",
)

CHECKS["C04"] = dict(
    text=("Values.tla gives each built-in value parser its language declaratively (decimal notation over arbitrary-precision digit "
          "strings, range, target width; literal tables; names and aliases) next to the mechanism as written (parse as i64/u64, "
          "bounds, checked narrowing); TLC checks mechanism = language for every (width, constructor, range, candidate string) in the "
          "boundary family and the typed-access machine's frame properties for every call history; each case is parsed by a real "
          "Command and read back with get_one::<T> (accept/reject, value, error kind, raw string, argument named); random 64-bit "
          "ranges and strings recorded from the real code are validated by Trace_C04.tla, which evaluates the declarative language on "
          "the implementation's observation."),
    ref="§4.C04",
    note="value_parser! inference for arbitrary user types and custom parsers are outside the vocabulary.",
    technique="TLA+ spec (Values.tla) model-checked with TLC; TLC-enumerated cases replayed on real Command/ArgMatches; recorded cases validated by a TLA+ trace spec",
)

NOT_YET = "check not built yet in this round (specification module planned in DESIGN.md §4/§5); not claimed until its check exists"


def build():
    checks = []
    for pid in ALL:
        if pid not in CHECKS:
            continue
        c = CHECKS[pid]
        checks.append({
            "property_id": pid,
            "quick_cmd": "bin/check %s --tier quick" % pid,
            "thorough_cmd": "bin/check %s --tier thorough" % pid,
            "evidence_file": "/verif/evidence/%s.json" % pid,
            "replay_cmd_template": "bin/check %s --replay {path}" % pid,
            "engine": "clapspec",
            "level_claimed": {"category": "model_checking", "text": c["text"], "design_ref": c["ref"]},
            "level_note": COMMON_NOTE + c["note"],
            "technique": c["technique"],
        })
    na = [{"property_id": p, "reason": NOT_YET} for p in ALL if p not in CHECKS]
    return {
        "version": 1,
        "setup_cmd": "cd /verif/harness && CARGO_NET_OFFLINE=true cargo build --offline --quiet",
        "hooks": {
            "guard": "clap_verif",
            "enable": "none needed: all observations go through clap's public API; the cfg name clap_verif is reserved and currently unused (no hook commits in /repo)",
            "baseline_off_cmd": "cd /repo && cargo test --workspace --no-fail-fast --offline",
            "source_commits": [],
            "add_only": True,
        },
        "engines": [{
            "name": "clapspec",
            "path": "/verif/spec",
            "serves_properties": sorted(CHECKS),
            "kind_free_text": ("explicit TLA+ specification of clap (spec/*.tla), model-checked with TLC (spec/mc), bound to the code by "
                               "replaying TLC-generated behaviours into the real crates (harness/) and by validating traces recorded "
                               "from the real crates against trace specifications (spec/trace); driver bin/check"),
        }],
        "checks": checks,
        "not_applicable": na,
        "notes": "See DESIGN.md. known_findings.json lists recorded and fixed defects; seeded/ holds property-breaking changes used to test the checks.",
    }
