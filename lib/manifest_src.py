import json, os

ROOT = os.path.dirname(os.path.dirname(os.path.abspath(__file__)))
ALL = ["C%02d" % i for i in range(1, 21)]

COMMON_NOTE = ("Trusted base: TLC 1.8 and the CommunityModules Json/IOUtils modules; the Rust harness /verif/harness (projection of "
               "clap's public API to JSON); bounds of the exhaustive configurations as stated in the evidence file. ")

CHECKS = {
    "C13": dict(
        text=("TLC checks on Lex.tla (a branch-by-branch transcription of clap_lex ParsedArg/ShortFlags/is_number over byte "
              "sequences) that the declarative C13 predicates hold for every byte string over a UTF-8 boundary alphabet and every "
              "interleaving of ShortFlags calls within the bound; every explored (string, iterator state) is replayed on the real "
              "clap_lex with the fan-out of all calls, and random longer strings x call sequences recorded from clap_lex are "
              "validated against the specification by Trace_C13.tla, which also evaluates the declarative predicates on the "
              "implementation's observation."),
        ref="§5.C13",
        note="Cannot observe undefined behaviour inside the unsafe re-slicing as such; decides that every split index is a character boundary and every returned piece is right.",
        technique="TLA+ spec (Lex.tla) model-checked with TLC; TLC-generated behaviours replayed on clap_lex; recorded traces validated by a TLA+ trace spec",
    ),
    "C14": dict(
        text=("Cursor.tla states RawArgs/ArgCursor as an index into a growable list and the seek arithmetic as written; Bytes.tla "
              "gives the byte-level meaning of find/contains/starts_with/strip_prefix/split/split_once. TLC checks the algebraic "
              "laws for all cursor histories and haystack x needle pairs within the bound, every explored state is replayed on the "
              "real clap_lex with the fan-out of all operations (panics are caught and are violations), and random histories "
              "recorded from clap_lex are validated by Trace_C14.tla."),
        ref="§5.C14",
        note="64-bit extremes are classes (scaled in TLC, true i64::MIN/MAX and u64::MAX in the harness).",
        technique="TLA+ spec (Cursor.tla, Bytes.tla) model-checked with TLC; lock-step replay of TLC behaviours on clap_lex; trace validation of recorded histories",
    ),
}

CHECKS["C20"] = dict(
    text=("Wrap.tla transcribes find_words_ascii_space, LineWrapper::wrap (carry-over indent, trailing-space trimming, byte/column "
          "bookkeeping), display_width with its control-sequence flag and StyledStr::wrap's segmentation; the declarative property "
          "(an alignment that only deletes inter-word spaces before an inserted break + indent, equal non-space content, width bound "
          "for plain text, escapes intact for styled text) is checked by TLC for every text over 8 symbols up to the bound x widths; "
          "every (text, width) is rendered through the real code via the public help template and compared; random long texts "
          "recorded from the real code are validated by Trace_C20.tla, which evaluates the declarative predicates on the "
          "implementation's output (a different but property-satisfying wrapping is a benign divergence)."),
    ref="§5.C20",
    note="Width 0 of the internal function is not reachable through the public API (term_width(0) means unlimited).",
    technique="TLA+ spec (Wrap.tla) model-checked with TLC; TLC-enumerated cases replayed on the real wrappers; recorded outputs validated by a TLA+ trace spec",
)

CHECKS["C04"] = dict(
    text=("Values.tla gives each built-in value parser its language declaratively (decimal notation over arbitrary-precision digit "
          "strings, range, target width; literal tables; names and aliases for PossibleValuesParser and EnumValueParser; non-empty OS strings for PathBuf) next to the mechanism as written (parse as i64/u64, "
          "bounds, checked narrowing); TLC checks mechanism = language for every (width, constructor, range, candidate string) in the "
          "boundary family and the typed-access machine's frame properties for every call history; each case is parsed by a real "
          "Command and read back with get_one::<T> (accept/reject, value, error kind, raw string, argument named); random 64-bit "
          "ranges and strings recorded from the real code are validated by Trace_C04.tla, which evaluates the declarative language on "
          "the implementation's observation."),
    ref="§4.C04",
    note="value_parser! inference for arbitrary user types and custom parsers are outside the vocabulary.",
    technique="TLA+ spec (Values.tla) model-checked with TLC; TLC-enumerated cases replayed on real Command/ArgMatches; recorded cases validated by a TLA+ trace spec",
)

_PARSER_TECH = "TLA+ spec of the parser (ClapDef/Parser/Props.tla) model-checked with TLC over definition families x all argv; every TLC state replayed on the real clap; observations judged by a TLA+ trace spec (Trace_Parse.tla)"
_PARSER_COMMON = ("Parser.tla transcribes parser.rs / arg_matcher.rs / validator.rs / the parse entry of command.rs branch by branch (one Step per argv "
                  "token, react, pending values, flag-subcommand resume, env/default phases, validator, global propagation), with every unwrap/"
                  "expect/unreachable/debug_assert on the path an explicit panic-site outcome; TLC explores every argv up to the bound over each "
                  "definition's alphabet for six definition families (core, act, src, tree, rel, relx; also with ignore_errors) and checks the declarative predicate as an invariant "
                  "on the model; every state is replayed on the real parser (zero divergences on the unchanged tree), divergent observations and "
                  "spec-level counterexamples are judged by Trace_Parse.tla on the implementation's own observation, and random long argv recorded "
                  "from the real parser are validated the same way. ")
_PARSER = {
 "C01": ("Decides: no panic site reachable, every parse returns matches or a renderable structured error, ignore_errors yields matches except for help/version.", "§4.C01",
         "Memory safety, stack exhaustion and user closures are outside the technique; termination is by construction of the fold over argv (no hang observed under the 30 s watchdog)."),
 "C02": ("Decides: command-line values, occurrence grouping and indices equal the specification's attribution (the documented grammar), indices distinct, no value invented, unattributable lines not accepted.", "§4.C02",
         "The specification's ledger is taken as the documented grammar."),
 "C03": ("Decides: on success the explicitly present set satisfies conflicts, exclusivity, non-multiple groups and every static/conditional requirement unless excused, stated from the definition only.", "§4.C03",
         "Relations outside the vocabulary (custom validators) not covered."),
 "C05": ("Decides: after the escape consumed by the grammar, the tail reaches the positionals verbatim and in order and nothing after it is a subcommand; a declared value terminator remains a sentinel.", "§4.C05",
         "The 'options keep their values' clause is decided through the attribution equality of C02."),
 "C06": ("Decides: every non-command-line value is the environment value if set, else the first applicable conditional default, else the plain default, else absent, with the matching reported source.", "§4.C06",
         "Globals copied between levels are judged by C09."),
 "C07": ("Decides: the stored occurrences equal a declarative fold of the command-line occurrence ledger by action (last-wins / append with boundaries / saturating count / flag values) with override removal in both directions.", "§4.C07",
         "Count saturation is reached by the dedicated chain run in the thorough tier."),
 "C09": ("Decides: the reported subcommand chain equals the grammar's, globals agree at every level at or below their definition, an explicit occurrence beats a default.", "§4.C09",
         "Flag-subcommand aliases are outside the vocabulary."),
 "C10": ("Decides: stream/exit contract as a total function of the kind; an input the grammar accepts is not rejected; the kind is the one the grammar assigns (either of UnknownArgument/InvalidSubcommand where only the similarity threshold decides); MissingRequired/ArgumentConflict are justified by a really unmet requirement / really present conflict.", "§4.C10",
         "Suggestion contents are not judged yet."),
}
for _p, (_t, _r, _n) in _PARSER.items():
    CHECKS[_p] = dict(text=_PARSER_COMMON + _t, ref=_r, note=_n, technique=_PARSER_TECH)

CHECKS["C08"] = dict(
    text=("MC_Spell.tla is a product construction over intended invocations: line A spells every element canonically, line B spells each "
          "element in any documented equivalent way (--o=v/--o v/-ov/-o v/-o=v, clusters, aliases, unique prefixes under inference, explicit "
          "--); TLC checks that Run gives equal observations for every element sequence x spelling combination within the bound and that an "
          "ambiguous prefix is never accepted; both lines of every pair are parsed by the real clap and compared (observation and ArgMatches "
          "==), and random longer sequences are validated by Trace_Spell.tla on the two real observations."),
    ref="§4.C08", note="Equivalences documented not to hold (-- under allow_missing_positional/last, attached short values next to a hyphen-accepting positional) are excluded.",
    technique="TLA+ product spec over Parser.tla model-checked with TLC; TLC-generated line pairs replayed on the real parser; recorded pairs validated by a TLA+ trace spec")
CHECKS["C11"] = dict(
    text=("History.tla makes the state a Command value carries between calls explicit (Built flags, bin_name, the names written into "
          "dispatched subcommands, levels built by the did-you-mean scan) with the public calls as actions; what a call returns is Run on the "
          "definition. TLC checks monotonicity, idempotent build and that dispatched levels are always named for every history within the "
          "bound; every history is replayed on one real Command through try_get_matches_from_mut and each parse is compared with the "
          "specification, a fresh definition and a clone (observation and rendered message); random long histories are validated by "
          "Trace_History.tla."),
    ref="§4.C11", note="Different argv[0] between calls is excluded by the property.",
    technique="TLA+ object-state spec (History.tla) model-checked with TLC; TLC-generated histories replayed on one real Command; recorded histories validated by a TLA+ trace spec")

CHECKS["C12"] = dict(
    text=("HelpModel.tla states the default template's visibility filters (should_show_arg, hidden subcommands and possible values), section "
          "membership, Arg's display width and the column arithmetic of write_args / align_to_about / subcmd with every subtraction a checked "
          "site; TLC checks the sites and that the help flag at a subcommand level yields that level's help for every definition of the help "
          "family (all singles, all ordered pairs and random triples of 16 argument shapes with random hide attributes, trees with hidden "
          "and flag subcommands) and emits what each rendering must / must not mention; the real -h/--help errors, render_help, "
          "render_long_help and render_usage are rendered at many widths under catch_unwind and judged (no panic, no run of spaces beyond "
          "the layout bound, visible items in their section, hidden items nowhere, usage line of the right level); divergent renderings are "
          "judged by Trace_Help.tla."),
    ref="§5.C12", note="Pixel-exact layout is not judged; three custom templates are judged for panics, padding and hidden items only (the listing clauses are stated for the default template); mentions are located by sentinel substrings.",
    technique="TLA+ spec (HelpModel.tla) model-checked with TLC; TLC-generated expectations replayed on the real help renderer at many widths; divergent renderings judged by a TLA+ trace spec")
CHECKS["C18"] = dict(
    text=("Complete.tla states what the dynamic completion engine must and may offer against the *parser specification's* view of the words "
          "before the cursor (Parser.tla's own loop gives the level reached, a pending option and the escape state); TLC enumerates every "
          "(definition of the core and tree families, words within the bound, cursor) and emits the ids that must be represented; the real "
          "engine is called for each under catch_unwind, and every answer offering option/subcommand candidates where a new argument may "
          "start is judged by Trace_Complete.tla: sound (extends the word, belongs to the level, accepted by the parser as that option / "
          "subcommand), complete (every visible option/subcommand extending the word is represented), hidden only if nothing visible."),
    ref="§5.C18", note="Value/path candidates and custom completers are not constrained by the property. Four recorded limitations of the engine (flag subcommands, infer_subcommands, args_conflicts_with_subcommands, subcommand_precedence_over_arg) are known findings keyed by witness class.",
    technique="TLA+ spec (Complete.tla over Parser.tla) model-checked with TLC; TLC-generated queries replayed on the real completion engine; answers judged by a TLA+ trace spec")

CHECKS["C19"] = dict(
    text=("Roff.tla transcribes how roff 0.2.1 turns clap_mangen's text and control calls into output lines (escape_inline, apostrophe "
          "handling, escape_leading_cc, the line-start \\& rule, escape_spaces) and gives the page skeleton - the exact sequence of control "
          "lines Man::render emits - as a function of the definition's structure; TLC checks for every structure x text slot x adversarial "
          "string within the bound that rendered text never starts a request and control-line arguments stay on one line; each case is "
          "rendered by the real Man::render twice (determinism) under catch_unwind and the request names of every output line starting "
          "with '.' or \"'\" are compared with the skeleton, visible items must be named and hidden ones must not; divergent pages are "
          "judged by Trace_Man.tla."),
    ref="§5.C19", note="Rendering by man/groff cannot be executed here; only the line-level roff grammar is modelled.",
    technique="TLA+ spec (Roff.tla) model-checked with TLC; TLC-generated cases rendered by the real clap_mangen and compared line class by line class; divergent pages judged by a TLA+ trace spec")

CHECKS["C16"] = dict(
    text=("GenTree.tla gives the command tree as the generators see it after build (help/version flags, the expanded help subcommand tree), "
          "the set every script must mention per level, and the generated bash function as an automaton transcribed from bash.rs (the "
          "(parent, word) -> mangled-name table, case arms in generation order, compgen prefix filtering) next to the intended function "
          "(the level addressed by the words before the cursor); TLC checks BashOffers and mangling injectivity for every tree x word "
          "sequence x partial word within the bound; all six real generators are run twice under catch_unwind (terminate, deterministic, "
          "mentions), the bash script is checked with bash -n and its function is executed in a real bash for every enumerated query, and "
          "each reply is compared with the transcribed automaton (conformance) and with the intended level (property) by Trace_Gen.tla."),
    ref="§5.C16", note="zsh, fish, PowerShell, elvish and nushell are not installed: their scripts are only checked for termination, determinism and mentions. Seven recorded witness classes (known_findings.json).",
    technique="TLA+ spec (GenTree.tla incl. the bash function as an automaton) model-checked with TLC; TLC-generated queries executed in a real bash against the generated script; replies judged by a TLA+ trace spec")

CHECKS["C17"] = dict(
    text=("Quote.tla holds each generator's escaping functions exactly as written, the literal context every descriptive slot is put in, and "
          "per shell a lexer automaton for that context (fish, zsh, PowerShell, elvish quoting; nushell comments; stage 2 for fish "
          "`complete -a` arguments and zsh _arguments specs); TLC checks non-interference (no byte of the escaped text is read as code, no "
          "expansion, the literal is still open at the end) for every adversarial string within the bound x shell x slot; the real generators "
          "are run with each string between sentinels in every slot, the emitted literal is compared with the transcription, the bash script "
          "must not depend on the text at all, and the automaton is run over the actually emitted literal by Trace_Quote.tla."),
    ref="§5.C17", note="The five non-bash shells are not installed: their automata are transcribed from documented quoting rules (trusted base); such verdicts are labelled model-only.",
    technique="TLA+ spec (Quote.tla: escaping functions + per-shell lexer automata) model-checked with TLC; real generators' emitted literals compared with the transcription and judged by a TLA+ trace spec")

CHECKS["C15"] = dict(
    text=("Derive.tla states what #[derive(Parser)] means for the struct descriptions of a compiled corpus: DeriveCmd (the generated "
          "command: default actions, num_args, required-ness, value enums, struct groups, subcommand enums, flatten), Extract (the field "
          "values taken from the matches per type shape), PrintValue and the update rule, on top of the parser specification; TLC checks "
          "round trip and enum-name mapping for every argv within the bound and enumerates update lines from every parsed value; each "
          "case is run through the real T::try_parse_from, T::command(), from_arg_matches and try_update_from of the corpus compiled "
          "against /repo's clap_derive; divergent cases are judged by Trace_Derive.tla (parse iff command, field = extraction, round trip, "
          "update touches only named fields)."),
    ref="§5.C15", note="Only derive inputs of the corpus are covered; the corpus source and its descriptions are generated from one description (lib/corpus_gen.py).",
    technique="TLA+ spec (Derive.tla over Parser.tla) model-checked with TLC; TLC-generated cases replayed on a compiled derive corpus; divergent cases judged by a TLA+ trace spec")

NOT_YET = "check not built yet in this round (specification module planned in DESIGN.md §4/§5); not claimed until its check exists"


def build():
    checks = []
    for pid in ALL:
        if pid not in CHECKS:
            continue
        c = CHECKS[pid]
        checks.append({
            "property_id": pid,
            "quick_cmd": "bin/check %s --tier quick" % pid,
            "thorough_cmd": "bin/check %s --tier thorough" % pid,
            "evidence_file": "/verif/evidence/%s.json" % pid,
            "replay_cmd_template": "bin/check %s --replay {path}" % pid,
            "engine": "clapspec",
            "level_claimed": {"category": "model_checking", "text": c["text"], "design_ref": c["ref"]},
            "level_note": COMMON_NOTE + c["note"],
            "technique": c["technique"],
        })
    na = [{"property_id": p, "reason": NOT_YET} for p in ALL if p not in CHECKS]
    return {
        "version": 1,
        "setup_cmd": "cd /verif/harness && CARGO_NET_OFFLINE=true cargo build --offline --quiet",
        "hooks": {
            "guard": "clap_verif",
            "enable": "none needed: all observations go through clap's public API; the cfg name clap_verif is reserved and currently unused (no hook commits in /repo)",
            "baseline_off_cmd": "cd /repo && cargo test --workspace --no-fail-fast --offline",
            "source_commits": [],
            "add_only": True,
        },
        "engines": [{
            "name": "clapspec",
            "path": "/verif/spec",
            "serves_properties": sorted(CHECKS),
            "kind_free_text": ("explicit TLA+ specification of clap (spec/*.tla), model-checked with TLC (spec/mc), bound to the code by "
                               "replaying TLC-generated behaviours into the real crates (harness/) and by validating traces recorded "
                               "from the real crates against trace specifications (spec/trace); driver bin/check"),
        }],
        "checks": checks,
        "not_applicable": na,
        "notes": "See DESIGN.md. known_findings.json lists recorded and fixed defects; seeded/ holds property-breaking changes used to test the checks.",
    }
