#!/usr/bin/env python3
"""mutloop2.py <out.tsv> <max> <seed> <check id> <file[:lo-hi]>...: mutation survey of one registered check (development aid).
Each mutant of the listed source files is applied to a scratch worktree and the check's quick tier is run against it:
exit 1 = detected, exit 0 = silent (equivalent / unobservable, or a gap), exit 2 = tool error (usually does not compile)."""
import os, random, re, subprocess, sys, time
OUT, MAXM, SEED, CID = sys.argv[1], int(sys.argv[2]), int(sys.argv[3]), sys.argv[4]
REPO = "/tmp/mutloop2-repo-%s" % CID
if not os.path.exists(REPO):
    subprocess.run(["git", "-C", "/repo", "worktree", "add", "-q", "--detach", REPO, "HEAD"], check=True)
head = subprocess.run(["git", "-C", "/repo", "rev-parse", "HEAD"], capture_output=True, text=True).stdout.strip()
subprocess.run(["git", "-C", REPO, "checkout", "-q", "--", "."], check=True)
subprocess.run(["git", "-C", REPO, "checkout", "-q", "--detach", head], check=True)
env = dict(os.environ, VERIF_REPO=REPO, VERIF_WORK="/tmp/mutloop2-work-%s" % CID, VERIF_EVID_SUFFIX=".mutloop", VERIF_SCRATCH="/tmp")
OPS = [(r" && ", " || "), (r" \|\| ", " && "), (r" == ", " != "), (r" != ", " == "), (r"!(self|arg|a|o|p|sc|cmd|s|subcommand|option)\.", r"\1."), (r" < ", " <= "), (r" <= ", " < "),
       (r" > ", " >= "), (r" >= ", " > "), (r" \+ 1\b", " + 0"), (r" - 1\b", " - 0"), (r"\.is_some\(\)", ".is_none()"), (r"\.is_none\(\)", ".is_some()"),
       (r"= true;", "= false;"), (r"= false;", "= true;"), (r"\.any\(", ".all("), (r"\.all\(", ".any("), (r"\.is_empty\(\)", ".is_empty() == false"),
       (r"\.filter\(\|(\w+)\| !", r".filter(|\1| "), (r"\bcontinue;", "{}"), (r'\.replace\("([^"]+)", "([^"]*)"\)', r'.replace("\1", "\1")')]
cands = []
for spec in sys.argv[5:]:
    f, _, rng = spec.partition(":")
    lo, hi = (int(x) for x in rng.split("-")) if rng else (1, 10**6)
    lines = open(os.path.join(REPO, f)).read().split("\n")
    in_test = False
    for i, l in enumerate(lines):
        if "#[cfg(test)]" in l or l.startswith("mod test"):
            in_test = True
        s = l.strip()
        if in_test or not (lo <= i + 1 <= hi) or s.startswith("//") or s.startswith("debug!") or s.startswith("#[") or "debug_assert" in s:
            continue
        for (pat, rep) in OPS:
            if re.search(pat, l):
                cands.append((f, i, pat, rep))
random.Random(SEED).shuffle(cands)
print("candidates", len(cands), flush=True)
out = open(OUT, "a")
n = 0
for (f, i, pat, rep) in cands:
    if n >= MAXM:
        break
    path = os.path.join(REPO, f)
    orig = open(path).read()
    lines = orig.split("\n")
    new = re.sub(pat, rep, lines[i], count=1)
    if new == lines[i]:
        continue
    lines[i] = new
    open(path, "w").write("\n".join(lines))
    t0 = time.time()
    p = subprocess.run(["/verif/bin/check", CID, "--tier", "quick"], env=env, capture_output=True, text=True)
    open(path, "w").write(orig)
    if p.returncode == 2:
        continue
    n += 1
    status = "detected" if p.returncode == 1 else "silent"
    first = [l for l in p.stdout.splitlines() if l.startswith("  ")][:1]
    out.write("\t".join([status, CID, "%s:%d" % (f, i + 1), new.strip()[:150], orig.split("\n")[i].strip()[:150], (first[0].strip()[:120] if first else ""), "%.0fs" % (time.time() - t0)]) + "\n")
    out.flush()
print("done", n)
