"""The parser campaign shared by C01-C03, C05-C07, C09, C10 (DESIGN §4).

One run = for every definition family: TLC explores MC_Parse (all argv over the definition's
alphabet up to the bound; declarative invariants on the model's observation; one REPLAY record per
state), the harness replays every record on the real clap, divergent observations and the
counterexamples of spec-level invariant violations are judged by Trace_Parse.tla on the
implementation's own observation, and random long argv recorded from the real parser are
validated by the same trace spec. The result is cached per (repo state, spec, harness, tier, seed)
so that the eight property checks share one run.
"""
import hashlib, json, os, re, subprocess, sys, time
import driver as d
import families as F

PROPS = ["C01", "C02", "C03", "C05", "C06", "C07", "C09", "C10"]
INVARIANT_OWNER = {"NoPanicSite": "C01", "IgnoreErrorsOk": "C01", "RelationsHold": "C03", "SourcesHonest": "C06",
                   "ActionsFold": "C07", "AttributionSound": "C02", "TailVerbatim": "C05", "ChainAndGlobals": "C09",
                   "Rejections": "C10"}

PLAN = {
    # family -> (generator, [(MaxArgv, with_invariants)])
    "quick": [("core", 2, True), ("core", 3, False), ("act", 3, True), ("src", 2, True), ("tree", 2, True), ("tree", 3, False),
              ("rel", 2, True), ("relx", 3, True), ("core+ie", 2, True), ("tree+ie", 2, True), ("src+ie", 2, True)],
    "thorough": [("core", 3, True), ("core", 4, False), ("act", 4, True), ("src", 3, True), ("tree", 3, True), ("tree", 4, False),
                 ("rel", 3, True), ("relx", 4, True), ("core+ie", 3, True), ("tree+ie", 3, True), ("act+ie", 3, True), ("src+ie", 3, True)],
}
RECORD = {"quick": (6000, 10), "thorough": (120000, 24)}


def repo_state():
    h = hashlib.sha256()
    h.update(subprocess.run(["git", "-C", d.REPO, "rev-parse", "HEAD"], capture_output=True, text=True).stdout.encode())
    h.update(subprocess.run(["git", "-C", d.REPO, "diff", "HEAD", "--", "."], capture_output=True).stdout)
    return h


def tree_hash(h, root, exts):
    for dp, dn, fn in sorted(os.walk(root)):
        dn.sort()
        if "target" in dp.split(os.sep):
            continue
        for f in sorted(fn):
            if f.endswith(exts):
                h.update(f.encode())
                h.update(open(os.path.join(dp, f), "rb").read())


def cache_key(tier, seed):
    h = repo_state()
    tree_hash(h, d.SPEC, (".tla", ".cfg"))
    tree_hash(h, os.path.join(d.HARNESS, "src"), (".rs",))
    tree_hash(h, os.path.join(d.VERIF, "lib"), (".py",))
    h.update(("%s/%s/%s" % (tier, seed, os.environ.get("VERIF_ONLY_FAMILIES", ""))).encode())
    return h.hexdigest()[:24]


def gen_family(name, seed, tier):
    base, ie = (name.split("+") + [""])[:2]
    if base == "rel":
        defs = F.f_rel(2, sample=350 if tier == "quick" else 1500, seed=seed)
    else:
        defs = F.FAMILIES[base]()
    if ie:
        defs = F.with_ignore_errors(defs)
    return defs


_CEX = re.compile(r"Error: Invariant (\w+) is violated\.\nError: The behavior up to this point is:\n(.*?)(?=\nError: |\n\d+ states generated|\Z)", re.S)


def tla_to_json(t):
    """the balanced <<...>> value at the start of t"""
    t = t.lstrip()
    depth, i = 0, 0
    while i < len(t):
        if t.startswith("<<", i):
            depth += 1
            i += 2
        elif t.startswith(">>", i):
            depth -= 1
            i += 2
            if depth == 0:
                break
        else:
            i += 1
    return json.loads(t[:i].replace("<<", "[").replace(">>", "]"))


def counterexamples(out):
    res = []
    for m in _CEX.finditer(out):
        last = m.group(2).strip().split("\nState ")[-1]
        dm = re.search(r"d = (\d+)", last)
        am = re.search(r"argv = (.*)", last, re.S)
        if dm and am:
            res.append((m.group(1), int(dm.group(1)), tla_to_json(" ".join(am.group(1).split()))))
    return res


def show(defs_by_i):
    def f(rec):
        lab = defs_by_i.get(rec.get("d"), "?")
        argv = [bytes(a).decode("latin1") for a in rec.get("argv", [])]
        o = rec.get("obs", {})
        return "def[%s] argv=%r -> %s %s" % (lab, argv, o.get("outcome"), o.get("kind") or "")
    return f


def run_campaign(tier, seed):
    key = cache_key(tier, seed)
    cdir = os.path.join(d.WORK, "cache")
    os.makedirs(cdir, exist_ok=True)
    cpath = os.path.join(cdir, "campaign-%s.json" % key)
    if os.path.exists(cpath) and not os.environ.get("VERIF_NOCACHE"):
        d.log("[campaign] cached result %s" % cpath)
        res = json.load(open(cpath))
        res["from_cache"] = True
        return res
    t0 = time.time()
    w = d.workdir("campaign")
    exe = d.cargo_build()
    res = {"states": 0, "transitions": 0, "replayed": 0, "recorded": 0, "judged": 0, "definitions": 0, "divergences": 0,
           "benign": 0, "gate_rejected": 0, "findings": [], "samples": [], "families": {}, "spec_cex": 0}
    workers = 10 if tier == "quick" else 14
    defs_cache = {}
    only = [x for x in os.environ.get("VERIF_ONLY_FAMILIES", "").split(",") if x]   # development aid (seeded-change triage)
    for (fam, maxargv, inv) in PLAN[tier]:
        if only and fam.split("+")[0] not in only:
            continue
        tag = "%s-%d" % (fam.replace("+", "_"), maxargv)
        if fam not in defs_cache:
            raw = os.path.join(w, "defs_%s.ndjson" % fam.replace("+", "_"))
            F.write(gen_family(fam, seed, tier), raw)
            ok = os.path.join(w, "ok_%s.ndjson" % fam.replace("+", "_"))
            g = json.loads(d.vh(["gate", "--defs", raw, "--out", ok]).strip().splitlines()[-1])
            res["gate_rejected"] += g["rejected"]
            # a definition whose build (validity checks included) does not return: parsing it can never terminate
            for lab in g.get("hung", []):
                res["findings"].append({"props": ["C01"], "family": fam, "label": lab, "argv_text": [],
                                        "rec": {"d": 0, "argv": [], "obs": {"outcome": "Hang", "kind": "Command::build does not return (20 s)"}}})
            res["definitions"] += g["accepted"]
            defs_cache[fam] = ok
        defs = defs_cache[fam]
        labels = {i + 1: json.loads(l)["label"] for i, l in enumerate(open(defs))}
        cfg = os.path.join(w, "MC_%s.cfg" % tag)
        invs = " ".join(INVARIANT_OWNER) if inv else ""
        open(cfg, "w").write("SPECIFICATION Spec\nCONSTANTS\n  MaxArgv = %d\n  EmitOn = TRUE\nINVARIANTS %s Emit\nCHECK_DEADLOCK FALSE\n" % (maxargv, invs))
        rp = os.path.join(w, "replay_%s.ndjson" % tag)
        r = d.tlc("mc/MC_Parse.tla", cfg, "camp-" + tag, workers=workers, env={"DEFS": defs}, timeout=7200, replay_out=rp,
                  extra=["-continue"], heap="8g")
        res["states"] += r.distinct
        res["transitions"] += r.states
        out, div = os.path.join(w, "rep_%s.json" % tag), os.path.join(w, "div_%s.ndjson" % tag)
        try:
            d.vh(["parse-replay", "--defs", defs, "--in", rp, "--out", out, "--div", div, "--threads", 12], timeout=7200)
        except d.ToolError as e:
            # the harness watchdog: no parse finished for 30 s; the cases in flight are reported and the family is abandoned
            hang = [l for l in str(e).splitlines() if l.startswith("HANG ")]
            if not hang:
                raise
            res["findings"].append({"props": ["C01"], "family": fam, "label": "?", "argv_text": [hang[0][:400]],
                                    "rec": {"d": 0, "argv": [], "obs": {"outcome": "Hang", "kind": hang[0][:400]}}})
            res["families"][tag] = {"states": r.distinct, "replayed": 0, "divergent": 0, "hang": hang[0][:400]}
            continue
        rep = json.load(open(out))
        res["replayed"] += rep["n"]
        res["divergences"] += rep["mismatch_count"]
        res["suggestions"] = res.get("suggestions", 0) + rep.get("suggestions_judged", 0)
        res["samples"] += rep["samples"][:1]
        fam_info = {"states": r.distinct, "replayed": rep["n"], "divergent": rep["mismatch_count"], "spec_invariant_violations": 0}
        # counterexamples of spec-level invariants are replayed on the real code and judged like any other observation
        cex = counterexamples(r.out) if r.violated else []
        fam_info["spec_invariant_violations"] = len(cex)
        res["spec_cex"] += len(cex)
        if cex:
            cin = os.path.join(w, "cex_%s.in" % tag)
            seen = set()
            with open(cin, "w") as f:
                for (invn, di, argv) in cex[:400]:
                    k = (di, json.dumps(argv))
                    if k in seen:
                        continue
                    seen.add(k)
                    f.write(json.dumps({"d": di, "argv": argv, "obs": {}, "tag": invn}) + "\n")
            cdiv = os.path.join(w, "cex_%s.ndjson" % tag)
            d.vh(["parse-replay", "--defs", defs, "--in", cin, "--out", os.path.join(w, "cexrep.json"), "--div", cdiv, "--threads", 4])
            os.system("cat %s >> %s" % (cdiv, div))
        judge(res, defs, div, "j-" + tag, labels, fam)
        res["families"][tag] = fam_info
    # impl -> spec: random argv over the alphabets mixed with arbitrary bytes, far beyond the exhaustive bound
    n, maxlen = RECORD[tier]
    for fam in ("core", "tree", "src", "act"):
        defs = defs_cache[fam]
        labels = {i + 1: json.loads(l)["label"] for i, l in enumerate(open(defs))}
        tr = os.path.join(w, "trace_%s.ndjson" % fam)
        d.vh(["parse-record", "--defs", defs, "--seed", seed, "--n", n // 4, "--maxlen", maxlen, "--out", tr])
        res["recorded"] += n // 4
        judge(res, defs, tr, "t-" + fam, labels, fam, chunks=4 if tier == "quick" else 12)
        res["samples"].append({"recorded": json.loads(open(tr).readline())})
    res["wall_s"] = time.time() - t0
    json.dump(res, open(cpath, "w"))
    return res


def judge(res, defs, trace, name, labels, fam, chunks=1):
    """Trace_Parse verdicts; the trace is split so several TLC processes validate in parallel."""
    lines = open(trace).read().splitlines()
    if not lines:
        return
    parts = []
    per = (len(lines) + chunks - 1) // chunks
    for i in range(chunks):
        part = lines[i * per:(i + 1) * per]
        if part:
            p = "%s.part%d" % (trace, i)
            open(p, "w").write("\n".join(part) + "\n")
            parts.append((p, part))
    procs = []
    import concurrent.futures as cf

    def one(ix):
        p, part = parts[ix]
        return d.tlc_trace("trace/Trace_Parse.tla", "trace/Trace_Parse.cfg", "%s-%d" % (name, ix), p, env={"DEFS": defs}, timeout=7200)
    with cf.ThreadPoolExecutor(max_workers=chunks) as ex:
        results = list(ex.map(one, range(len(parts))))
    for (p, part), r in zip(parts, results):
        res["states"] += r.distinct
        res["transitions"] += r.states
        res["judged"] += len(part)
        for mm in r.mismatch:
            ln, failed = mm[0], mm[1]
            rec = json.loads(part[ln - 1])
            props = [x for x in failed if x != "model"]
            if not props:
                res["benign"] += 1
                continue
            res["findings"].append({"props": props, "family": fam, "label": labels.get(rec["d"], "?"),
                                    "argv_text": [bytes(a).decode("latin1") for a in rec["argv"]], "rec": rec})


def run_property(chk, pid):
    res = run_campaign(chk.tier, chk.seed)
    if res.get("from_cache"):
        # the eight parser-core checks share one campaign per (tree, spec, tier, seed): report the time of the run that produced it
        chk.t0 -= res.get("wall_s", 0)
        chk.extra["campaign_result"] = "shared with the other parser-core checks (same /repo state, specification, tier and seed)"
    chk.states += res["states"]
    chk.transitions += res["transitions"]
    chk.traces += res["replayed"] + res["recorded"]
    chk.evaluations += res["replayed"] + res["recorded"]
    chk.nontrivial += res["replayed"]
    for s in res["samples"][:4]:
        chk.sample(s)
    chk.extra.update({"definitions": res["definitions"], "gate_rejected": res["gate_rejected"],
                      "replay_divergences": res["divergences"], "benign_divergences": res["benign"],
                      "spec_invariant_counterexamples_replayed": res["spec_cex"], "families": res["families"],
                      "campaign_wall_s": round(res.get("wall_s", 0), 1), "observations_judged_by_trace_spec": res["judged"],
                      "error_messages_with_did_you_mean_judged": res.get("suggestions", 0)})
    for f in res["findings"]:
        for p in f["props"]:
            base, _, kf = p.partition("#")
            if base != pid:
                continue
            what = "%s fails on def[%s] argv=%r -> %s %s" % (pid, f["label"], f["argv_text"], f["rec"]["obs"].get("outcome"), f["rec"]["obs"].get("kind") or "")
            payload = {"family": f["family"], "label": f["label"], "argv": f["argv_text"], "rec": f["rec"], "known_class": kf}
            chk.violation(what, payload)
    chk.rule = ("Definitions: curated families core (every grammar mechanism), act (actions x override modes), src (default x default_if x "
                "default_missing x env), tree (globals, flag subcommands, external, help, inference, ...), rel (all relation graphs with "
                "<= 2 edges over 3 flags + option + 2 groups, sampled), each also with ignore_errors; argv: every sequence up to the bound "
                "over the definition's alphabet (12-30 tokens incl. unknown flags, --, -, '', non-UTF-8). Every TLC state is one complete "
                "parse replayed on the real clap; random argv up to 10/24 tokens are recorded and validated by Trace_Parse.tla. "
                "distinct_nontrivial = distinct (definition, argv) pairs replayed.")
    chk.exhaustive = True
    chk.assumptions = ["definitions use the shared vocabulary only (built-in value parsers, no custom closures, no defer/extensions)",
                       "attribution clauses take the specification's ledger as the documented grammar"]
