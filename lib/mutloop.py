#!/usr/bin/env python3
"""mutloop.py <out.tsv> <max mutants> [seed]: a mutation survey of the parser core against the replay binding (development aid).
TLC output does not depend on the implementation, so the replay inputs of every family are produced once; each mutant
then costs one incremental build of the harness against a scratch worktree and one replay per family.  A mutant with
zero divergences everywhere is reported as `silent`: either it is equivalent / unobservable, or the families miss it."""
import json, os, random, re, subprocess, sys, shutil, time
os.environ["VERIF_REPO"] = "/tmp/mutloop-repo"
os.environ["VERIF_WORK"] = "/tmp/mutloop-work"
sys.path.insert(0, "/verif/lib")
import driver as d, families as F, campaign as C
OUT, MAXM = sys.argv[1], int(sys.argv[2]); SEED = int(sys.argv[3]) if len(sys.argv) > 3 else 1
REPO = os.environ["VERIF_REPO"]
if not os.path.exists(REPO):
    subprocess.run(["git", "-C", "/repo", "worktree", "add", "-q", "--detach", REPO, "HEAD"], check=True)
subprocess.run(["git", "-C", REPO, "checkout", "-q", "--detach", subprocess.run(["git", "-C", "/repo", "rev-parse", "HEAD"], capture_output=True, text=True).stdout.strip()], check=True)
subprocess.run(["git", "-C", REPO, "checkout", "-q", "--", "."], check=True)
w = d.workdir("mutloop")
d.cargo_build()
PLAN = [("core", 3), ("tree", 3), ("act", 3), ("src", 2), ("relx", 3), ("rel", 2), ("tree+ie", 2), ("src+ie", 2)]
inputs = []
for fam, depth in PLAN:
    tag = fam.replace("+", "_")
    raw, ok = os.path.join(w, "defs_%s.ndjson" % tag), os.path.join(w, "ok_%s.ndjson" % tag)
    F.write(C.gen_family(fam, 1, "quick"), raw)
    d.vh(["gate", "--defs", raw, "--out", ok])
    cfg = os.path.join(w, "MC_%s.cfg" % tag)
    open(cfg, "w").write("SPECIFICATION Spec\nCONSTANTS\n  MaxArgv = %d\n  EmitOn = TRUE\nINVARIANTS Emit\nCHECK_DEADLOCK FALSE\n" % depth)
    rp = os.path.join(w, "replay_%s.ndjson" % tag)
    d.tlc("mc/MC_Parse.tla", cfg, "ml-" + tag, workers=8, env={"DEFS": ok}, timeout=7200, replay_out=rp, heap="8g")
    inputs.append((tag, ok, rp))
    print("prepared", tag, d.count_lines(rp), flush=True)
FILES = [("clap_builder/src/parser/parser.rs", 1, 10**6), ("clap_builder/src/parser/validator.rs", 1, 10**6), ("clap_builder/src/parser/arg_matcher.rs", 1, 10**6),
         ("clap_builder/src/parser/matches/matched_arg.rs", 1, 10**6), ("clap_builder/src/builder/range.rs", 1, 10**6),
         ("clap_builder/src/builder/arg.rs", 4500, 4552), ("clap_builder/src/builder/command.rs", 4300, 4800), ("clap_lex/src/lib.rs", 1, 10**6),
         ("clap_builder/src/mkeymap.rs", 1, 10**6)]
OPS = [(r" && ", " || "), (r" \|\| ", " && "), (r" == ", " != "), (r" != ", " == "), (r"!(self|arg|matcher|a|o|p|sc|cmd)\.", r"\1."), (r" < ", " <= "), (r" <= ", " < "),
       (r" > ", " >= "), (r" >= ", " > "), (r" \+ 1\b", " + 0"), (r" - 1\b", " - 0"), (r"\.is_some\(\)", ".is_none()"), (r"\.is_none\(\)", ".is_some()"),
       (r"= true;", "= false;"), (r"= false;", "= true;"), (r"\.any\(", ".all("), (r"\.all\(", ".any("), (r"unwrap_or\(false\)", "unwrap_or(true)"), (r"unwrap_or\(true\)", "unwrap_or(false)")]
cands = []
for (f, lo, hi) in FILES:
    lines = open(os.path.join(REPO, f)).read().split("\n")
    in_test = False
    for i, l in enumerate(lines):
        if "#[cfg(test)]" in l:
            in_test = True
        s = l.strip()
        if in_test or not (lo <= i + 1 <= hi) or s.startswith("//") or s.startswith("debug!") or s.startswith("#[") or "debug_assert" in s or s.startswith("///"):
            continue
        for (pat, rep) in OPS:
            if re.search(pat, l):
                cands.append((f, i, pat, rep))
random.Random(SEED).shuffle(cands)
print("candidates", len(cands), flush=True)
out = open(OUT, "a")
n = 0
for (f, i, pat, rep) in cands:
    if n >= MAXM:
        break
    path = os.path.join(REPO, f)
    orig = open(path).read()
    lines = orig.split("\n")
    new = re.sub(pat, rep, lines[i], count=1)
    if new == lines[i]:
        continue
    lines[i] = new
    open(path, "w").write("\n".join(lines))
    d._built.clear()
    t0 = time.time()
    try:
        d.cargo_build()
    except d.ToolError:
        open(path, "w").write(orig)
        continue
    n += 1
    res, total, hang, rejected = [], 0, False, 0
    for (tag, ok, rp) in inputs:
        o = os.path.join(w, "rep.json")
        try:
            d.vh(["parse-replay", "--defs", ok, "--in", rp, "--out", o, "--div", os.path.join(w, "div.ndjson"), "--threads", 8], timeout=1200)
            rj = json.load(open(o))
            m = rj["mismatch_count"]
            rejected += rj.get("gate_rejected", 0)
        except d.ToolError as e:
            m = -1
            hang = True
        res.append("%s=%d" % (tag, m)); total += max(m, 0)
    # definitions the clean tree accepts are rejected by the mutant's own configuration checks: outside the quantifier, but no longer covered
    status = "HANG" if hang else ("detected" if total > 0 else ("gate-shrunk:%d" % rejected if rejected > 0 else "silent"))
    out.write("\t".join([status, "%s:%d" % (f, i + 1), lines[i].strip()[:140], orig.split("\n")[i].strip()[:140], " ".join(res), "%.0fs" % (time.time() - t0)]) + "\n")
    out.flush()
    open(path, "w").write(orig)
print("done", n)
