#!/usr/bin/env python3
"""Generates the derive corpus for C15 from one description: the Rust source (harness/src/corpus.rs) and the
JSON struct descriptions (lib/corpus.ndjson) consumed by Derive.tla, so the two cannot drift.

shapes: bool, counter, req (T), opt (Option<T>), optopt (Option<Option<T>>), vec (Vec<T>), optvec (Option<Vec<T>>),
        deft (T with default_value_t), enum (ValueEnum), optenum, pos (positional Option<T>), posvec (positional Vec<T>)
"""
import json, os, sys
sys.path.insert(0, os.path.dirname(os.path.abspath(__file__)))

ROOT = os.path.dirname(os.path.dirname(os.path.abspath(__file__)))


def b(s):
    return list(s.encode())


def fld(name, shape, short=None, long=True, default=None, glob=False, delim=None):
    return {"name": name, "nameb": b(name), "shape": shape, "short": b(short) if short else [], "long": b(name.replace("_", "-")) if long else [],
            "default": b(default) if default is not None else [], "global": glob, "delim": ord(delim) if delim else 0}


ENUM = {"name": "Mode", "variants": [{"rust": "Fast", "name": "fast", "aliases": []}, {"rust": "Slow", "name": "slow", "aliases": ["slo", "s"]},
                                      {"rust": "VeryFast", "name": "very-fast", "aliases": []}], "skipped": "Hidden"}

TYPES = [
    {"type": "Basic", "fields": [fld("verbose", "bool", "v"), fld("count", "counter", "c", long=False), fld("name", "req"),
                                 fld("opt", "opt", "o"), fld("oo", "optopt"), fld("item", "vec", "i"), fld("ov", "optvec"),
                                 fld("num", "deft", "n", default="9"), fld("pos", "pos", long=False)], "flatten": None, "subs": None},
    {"type": "Enums", "fields": [fld("mode", "enum", "m"), fld("level", "optenum"), fld("csv", "vec", delim=","), fld("rest", "posvec", long=False)],
     "flatten": None, "subs": None},
    {"type": "WithSub", "fields": [fld("debug", "bool", "d", glob=True), fld("tag", "opt")], "flatten": None,
     "subs": {"optional": False, "variants": [
         {"rust": "Add", "name": "add", "aliases": [], "fields": [fld("name", "req", long=False), fld("force", "bool", "f")]},
         {"rust": "Remove", "name": "remove", "aliases": ["rm"], "fields": [fld("all", "bool"), fld("target", "opt")]},
         {"rust": "List", "name": "list", "aliases": [], "fields": []}]}},
    {"type": "OptSubFlat", "fields": [fld("top", "counter", "t", long=False)],
     "flatten": {"rust": "Common", "fields": [fld("color", "opt"), fld("quiet", "bool", "q", long=False)]},
     "subs": {"optional": True, "variants": [
         {"rust": "Run", "name": "run", "aliases": [], "fields": [fld("jobs", "deft", "j", default="2"), fld("arg", "posvec", long=False)]},
         {"rust": "Stop", "name": "stop", "aliases": [], "fields": []},
         {"rust": "Remote", "name": "remote", "aliases": [], "fields": [],
          "nested": {"rust": "RemoteCmd", "variants": [{"rust": "Show", "name": "show", "aliases": [], "fields": []},
                                                       {"rust": "Prune", "name": "prune", "aliases": [], "fields": [fld("name", "req", long=False)]}]}}]}},
    # a flattened struct behind a Box (the blanket `impl Args for Box<T>` forwards every method)
    {"type": "BoxedFlat", "fields": [fld("dry", "bool", "d")],
     "flatten": {"rust": "Inner", "boxed": True, "fields": [fld("must", "req"), fld("extra", "opt", "e"), fld("level", "counter", "l", long=False)]}, "subs": None},
]

RUST_TY = {"bool": "bool", "counter": "u8", "req": "String", "opt": "Option<String>", "optopt": "Option<Option<String>>", "vec": "Vec<String>",
           "optvec": "Option<Vec<String>>", "deft": "u16", "enum": "Mode", "optenum": "Option<Mode>", "pos": "Option<String>", "posvec": "Vec<String>"}


def attr(f):
    parts = []
    if f["short"]:
        parts.append("short = '%s'" % bytes(f["short"]).decode())
    if f["long"]:
        parts.append("long")
    if f["shape"] == "counter":
        parts.append("action = clap::ArgAction::Count")
    if f["shape"] == "deft":
        parts.append("default_value_t = %s" % bytes(f["default"]).decode())
    if f["shape"] in ("enum", "optenum"):
        parts.append("value_enum")
        parts.append("ignore_case = true")
    if f["global"]:
        parts.append("global = true")
    if f["delim"]:
        parts.append("value_delimiter = '%s'" % chr(f["delim"]))
    return "    #[arg(%s)]\n" % ", ".join(parts) if parts else "    #[arg()]\n"


def to_json_expr(f, access):
    n, s = f["name"], f["shape"]
    x = access
    if s == "bool":
        return 'fv("%s", true, vec![bs(&%s.to_string())])' % (n, x)
    if s in ("counter", "deft"):
        return 'fv("%s", true, vec![bs(&%s.to_string())])' % (n, x)
    if s == "req":
        return 'fv("%s", true, vec![bs(&%s)])' % (n, x)
    if s in ("opt", "pos"):
        return 'fv("%s", %s.is_some(), %s.iter().map(|v| bs(v)).collect())' % (n, x, x)
    if s == "optopt":
        return 'fv("%s", %s.is_some(), %s.iter().flat_map(|i| i.iter()).map(|v| bs(v)).collect())' % (n, x, x)
    if s in ("vec", "posvec"):
        return 'fv("%s", true, %s.iter().map(|v| bs(v)).collect())' % (n, x)
    if s == "optvec":
        return 'fv("%s", %s.is_some(), %s.iter().flat_map(|i| i.iter()).map(|v| bs(v)).collect())' % (n, x, x)
    if s == "enum":
        return 'fv("%s", true, vec![bs(%s.name())])' % (n, x)
    if s == "optenum":
        return 'fv("%s", %s.is_some(), %s.iter().map(|v| bs(v.name())).collect())' % (n, x, x)
    raise ValueError(s)


def gen_rust():
    o = []
    o.append("//! GENERATED by lib/corpus_gen.py - do not edit. The derive corpus of C15, compiled against /repo's clap_derive.\n")
    o.append("#![allow(dead_code)]\nuse clap::{Args, CommandFactory, FromArgMatches, Parser, Subcommand, ValueEnum};\nuse serde_json::{json, Value};\n")
    o.append("fn bs(s: &str) -> Value { Value::Array(s.as_bytes().iter().map(|b| json!(*b)).collect()) }\n")
    o.append("fn fv(name: &str, p: bool, v: Vec<Value>) -> Value { json!({\"f\": name, \"p\": p, \"v\": v}) }\n")
    o.append("#[derive(ValueEnum, Debug, Clone, Copy, PartialEq)]\npub enum Mode {\n")
    for v in ENUM["variants"]:
        if v["aliases"]:
            # the first alias through `alias`, the others through `aliases`: the attribute calls accumulate
            parts = ['alias = "%s"' % v["aliases"][0]]
            if len(v["aliases"]) > 1:
                parts.append("aliases = [%s]" % ", ".join('"%s"' % a for a in v["aliases"][1:]))
            o.append("    #[value(%s)]\n" % ", ".join(parts))
        o.append("    %s,\n" % v["rust"])
    o.append("    #[value(skip)]\n    %s,\n}\n" % ENUM["skipped"])
    o.append("impl Mode { pub fn name(&self) -> &'static str { match self { %s Mode::%s => \"<skipped>\" } } }\n" % (
        " ".join('Mode::%s => "%s",' % (v["rust"], v["name"]) for v in ENUM["variants"]), ENUM["skipped"]))
    for t in TYPES:
        if t["flatten"]:
            fl = t["flatten"]
            o.append("#[derive(Args, Debug, Clone, PartialEq)]\npub struct %s {\n" % fl["rust"])
            for f in fl["fields"]:
                o.append(attr(f))
                o.append("    pub %s: %s,\n" % (f["name"], RUST_TY[f["shape"]]))
            o.append("}\n")
        if t["subs"]:
            for v in t["subs"]["variants"]:
                if v.get("nested"):
                    o.append("#[derive(Subcommand, Debug, Clone, PartialEq)]\npub enum %s {\n" % v["nested"]["rust"])
                    for nv in v["nested"]["variants"]:
                        if nv["fields"]:
                            o.append("    %s {\n" % nv["rust"])
                            for f in nv["fields"]:
                                o.append("    " + attr(f))
                                o.append("        %s: %s,\n" % (f["name"], RUST_TY[f["shape"]]))
                            o.append("    },\n")
                        else:
                            o.append("    %s,\n" % nv["rust"])
                    o.append("}\n")
            o.append("#[derive(Subcommand, Debug, Clone, PartialEq)]\npub enum %sCmd {\n" % t["type"])
            for v in t["subs"]["variants"]:
                if v.get("nested"):
                    # (boxed: the blanket `impl Subcommand for Box<T>` forwards every method, update mode included)
                    o.append("    #[command(subcommand)]\n    %s(Box<%s>),\n" % (v["rust"], v["nested"]["rust"]))
                    continue
                if v["aliases"]:
                    o.append("    #[command(%s)]\n" % ", ".join('alias = "%s"' % a for a in v["aliases"]))
                if v["fields"]:
                    o.append("    %s {\n" % v["rust"])
                    for f in v["fields"]:
                        o.append("    " + attr(f))
                        o.append("        %s: %s,\n" % (f["name"], RUST_TY[f["shape"]]))
                    o.append("    },\n")
                else:
                    o.append("    %s,\n" % v["rust"])
            o.append("}\n")
        o.append("#[derive(Parser, Debug, Clone, PartialEq)]\n#[command(name = \"prog\")]\npub struct %s {\n" % t["type"])
        for f in t["fields"]:
            o.append(attr(f))
            o.append("    pub %s: %s,\n" % (f["name"], RUST_TY[f["shape"]]))
        if t["flatten"]:
            o.append("    #[command(flatten)]\n    pub common: %s,\n" % (("Box<%s>" if t["flatten"].get("boxed") else "%s") % t["flatten"]["rust"]))
        if t["subs"]:
            o.append("    #[command(subcommand)]\n    pub cmd: %s,\n" % (("Option<%sCmd>" if t["subs"]["optional"] else "%sCmd") % t["type"]))
        o.append("}\n")
        # to_json: {top: [fv...], cmd: variant name bytes ([] = none), sub: [fv...]}
        o.append("impl %s {\n    pub fn to_json(&self) -> Value {\n        let mut top: Vec<Value> = vec![];\n        let mut sub: Vec<Value> = vec![];\n        let mut sub2: Vec<Value> = vec![];\n        let mut cmd = json!([]);\n        let mut cmd2 = json!([]);\n" % t["type"])
        for f in t["fields"]:
            o.append("        top.push(%s);\n" % to_json_expr(f, "self." + f["name"]))
        if t["flatten"]:
            for f in t["flatten"]["fields"]:
                o.append("        top.push(%s);\n" % to_json_expr(f, "self.common." + f["name"]))
        if t["subs"]:
            opt = t["subs"]["optional"]
            o.append("        match &self.cmd {\n")
            for v in t["subs"]["variants"]:
                if v.get("nested"):
                    inner = "inner" if not opt else "inner"
                    pat_full = "%sCmd::%s(inner)" % (t["type"], v["rust"])
                    if opt:
                        pat_full = "Some(%s)" % pat_full
                    o.append("            %s => {\n                cmd = bs(\"%s\");\n                match inner.as_ref() {\n" % (pat_full, v["name"]))
                    for nv in v["nested"]["variants"]:
                        binds = ", ".join(f["name"] for f in nv["fields"])
                        npat = "%s::%s" % (v["nested"]["rust"], nv["rust"])
                        if nv["fields"]:
                            npat += " { %s }" % binds
                        o.append("                    %s => {\n                        cmd2 = bs(\"%s\");\n" % (npat, nv["name"]))
                        for f in nv["fields"]:
                            o.append("                        sub2.push(%s);\n" % to_json_expr(f, "(*%s)" % f["name"]))
                        o.append("                    }\n")
                    o.append("                }\n            }\n")
                    continue
                pat = "%sCmd::%s" % (t["type"], v["rust"])
                binds = ", ".join(f["name"] for f in v["fields"])
                pat_full = "%s { %s }" % (pat, binds) if v["fields"] else pat
                if opt:
                    pat_full = "Some(%s)" % pat_full
                o.append("            %s => {\n                cmd = bs(\"%s\");\n" % (pat_full, v["name"]))
                for f in v["fields"]:
                    o.append("                sub.push(%s);\n" % to_json_expr(f, "(*%s)" % f["name"]))
                o.append("            }\n")
            if opt:
                o.append("            None => {}\n")
            o.append("        }\n")
        o.append("        let _ = (&mut sub, &mut sub2, &mut cmd2);\n        json!({\"top\": top, \"cmd\": cmd, \"sub\": sub, \"cmd2\": cmd2, \"sub2\": sub2})\n    }\n}\n")
    # registry
    o.append("pub enum AnyValue { %s }\n" % ", ".join("%s(%s)" % (t["type"], t["type"]) for t in TYPES))
    o.append("impl AnyValue {\n    pub fn to_json(&self) -> Value { match self { %s } }\n" % " ".join("AnyValue::%s(v) => v.to_json()," % t["type"] for t in TYPES))
    o.append("    pub fn try_update(&mut self, argv: Vec<std::ffi::OsString>) -> Result<(), clap::Error> { match self { %s } }\n}\n" %
             " ".join("AnyValue::%s(v) => v.try_update_from(argv)," % t["type"] for t in TYPES))
    o.append("pub fn try_parse(ty: &str, argv: Vec<std::ffi::OsString>) -> Result<AnyValue, clap::Error> {\n    match ty {\n")
    for t in TYPES:
        o.append("        \"%s\" => %s::try_parse_from(argv).map(AnyValue::%s),\n" % (t["type"], t["type"], t["type"]))
    o.append("        _ => panic!(\"unknown corpus type\"),\n    }\n}\n")
    o.append("pub fn command(ty: &str, update: bool) -> clap::Command {\n    match ty {\n")
    for t in TYPES:
        o.append("        \"%s\" => if update { %s::command_for_update() } else { %s::command() },\n" % (t["type"], t["type"], t["type"]))
    o.append("        _ => panic!(\"unknown corpus type\"),\n    }\n}\n")
    o.append("pub fn from_matches(ty: &str, m: &clap::ArgMatches) -> Result<AnyValue, clap::Error> {\n    match ty {\n")
    for t in TYPES:
        o.append("        \"%s\" => %s::from_arg_matches(m).map(AnyValue::%s),\n" % (t["type"], t["type"], t["type"]))
    o.append("        _ => panic!(\"unknown corpus type\"),\n    }\n}\n")
    o.append("pub fn mode_from_str(s: &str, ic: bool) -> Option<&'static str> { <Mode as ValueEnum>::from_str(s, ic).ok().map(|m| m.name()) }\n")
    o.append("pub fn mode_variants() -> Vec<String> { Mode::value_variants().iter().filter_map(|v| v.to_possible_value()).map(|p| p.get_name().to_string()).collect() }\n")
    return "".join(o)


def alphabet(t):
    toks = []

    def add(x):
        x = b(x) if isinstance(x, str) else x
        if x not in toks:
            toks.append(x)

    def field_toks(f):
        val = {"deft": "5", "enum": "slow", "optenum": "FAST"}.get(f["shape"], "x")
        if f["long"]:
            lg = "--" + bytes(f["long"]).decode()
            add(lg)
            if f["shape"] not in ("bool", "counter"):
                add(lg + "=" + val)
                if f["delim"]:
                    add(lg + "=a,b")
        if f["short"]:
            sh = "-" + bytes(f["short"]).decode()
            add(sh)
            if f["shape"] not in ("bool", "counter"):
                add(sh + val)
    for f in t["fields"]:
        field_toks(f)
    if t["flatten"]:
        for f in t["flatten"]["fields"]:
            field_toks(f)
    if t["subs"]:
        for v in t["subs"]["variants"]:
            add(v["name"])
            for a in v["aliases"]:
                add(a)
            for f in v["fields"]:
                field_toks(f)
            if v.get("nested"):
                for nv in v["nested"]["variants"]:
                    add(nv["name"])
    for x in ("x", "y", "slo", "nope", "--", "--zz", "300"):
        add(x)
    return toks


def gen_desc():
    import families as F
    out = []
    argt = F.arg("x")
    cmdt = F.cmd("x")
    for i, t in enumerate(TYPES):
        d = dict(t)
        d["i"] = i + 1
        d["enum"] = {"variants": [{"name": b(v["name"]), "aliases": [b(a) for a in v["aliases"]]} for v in ENUM["variants"]]}
        if d["flatten"] is None:
            d["flatten"] = {"rust": "", "fields": []}
        if d["subs"] is None:
            d["subs"] = {"optional": False, "variants": [], "present": False}
        else:
            d["subs"] = dict(d["subs"])
            d["subs"]["present"] = True
            d["subs"]["variants"] = [{"name": b(v["name"]), "aliases": [b(a) for a in v["aliases"]], "fields": v["fields"],
                                      "nested": [{"name": b(nv["name"]), "rust": nv["rust"], "fields": nv["fields"]} for nv in (v.get("nested") or {"variants": []})["variants"]]}
                                     for v in t["subs"]["variants"]]
        d["alphabet"] = alphabet(t)
        d["groupt"] = F.group("x", [])
        for v, src in zip(d["subs"]["variants"], (t["subs"] or {"variants": []})["variants"]):
            v["rust"] = src["rust"]
        d["argt"] = argt
        d["cmdt"] = cmdt
        out.append(d)
    return out


if __name__ == "__main__":
    open(os.path.join(ROOT, "harness", "src", "corpus.rs"), "w").write(gen_rust())
    with open(os.path.join(ROOT, "lib", "corpus.ndjson"), "w") as f:
        for d in gen_desc():
            f.write(json.dumps(d) + "\n")
    print("corpus: %d types" % len(TYPES))
