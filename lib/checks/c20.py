"""C20 — text wrapping keeps every word, in order, within the width (DESIGN §5.C20)."""
import json, os
import driver as d

SYM = ["", "a", "b", " ", "\\n", "世", "<zw>", "<ESC[1m>", "<ESC[0m>"]


def show(rec):
    return "text=%r w=%s" % ("".join(SYM[s] for s in rec["text"]), rec["w"])


def run(chk):
    quick = chk.tier == "quick"
    w = d.workdir("c20")
    d.cargo_build()
    rp = os.path.join(w, "replay.ndjson")
    r = d.tlc("mc/MC_C20.tla", "mc/MC_C20_%s.cfg" % chk.tier, "c20", workers=8 if quick else 14, replay_out=rp, timeout=7000)
    chk.add_tlc(r)
    if r.violated:
        chk.violation("spec-level: transcription of textwrap violates %s" % r.violated, {"tlc": r.out[-3000:]})
        return
    out, div = os.path.join(w, "replay.json"), os.path.join(w, "div.ndjson")
    d.vh(["c20-replay", "--in", rp, "--out", out, "--div", div])
    rep = json.load(open(out))
    chk.traces += rep.get("evaluations", 0)
    chk.evaluations += rep.get("evaluations", 0)
    chk.nontrivial += rep["n"]
    chk.extra["replay_divergences"] = rep["mismatch_count"]
    for s in rep["samples"][:3]:
        chk.sample(s)
    d.judge_trace(chk, "trace/Trace_C20.tla", "trace/Trace_C20.cfg", "c20d", div, show, count=False)
    n = 1500 if quick else 60000
    tr = os.path.join(w, "trace.ndjson")
    d.vh(["c20-record", "--seed", chk.seed, "--n", n, "--maxlen", 120 if quick else 200, "--out", tr])
    d.judge_trace(chk, "trace/Trace_C20.tla", "trace/Trace_C20.cfg", "c20t", tr, show)
    chk.evaluations += n
    chk.nontrivial += len({l for l in open(tr)})
    chk.sample(json.loads(open(tr).readline()))
    chk.rule = ("TLC enumerates every text over 8 symbols (a, b, space, newline, a width-2 char, a zero-width char, two SGR escapes) "
                "up to length 5 (quick) / 6 (thorough) x widths {1..5, unlimited}; each (text, width) is rendered through the real "
                "textwrap::wrap ({author}) and StyledStr::wrap ({about}); random texts <= 120/200 symbols x widths 1..60 are recorded "
                "and validated by Trace_C20.tla. Non-trivial = distinct texts.")
    chk.exhaustive = True
    chk.assumptions = ["width 0 of the internal function is unreachable through the public API (term_width(0) = unlimited)",
                       "StyledStr WidthBound is not claimed by the property (plain text only)"]


def replay(chk, path):
    case = json.load(open(path))["case"]["rec"]
    w = d.workdir("c20r")
    rp = os.path.join(w, "in.ndjson")
    open(rp, "w").write(json.dumps({"text": case["text"], "plain": {str(case["w"]): []}, "styled": {str(case["w"]): []}}) + "\n")
    div = os.path.join(w, "div.ndjson")
    d.vh(["c20-replay", "--in", rp, "--out", os.path.join(w, "o.json"), "--div", div])
    d.judge_trace(chk, "trace/Trace_C20.tla", "trace/Trace_C20.cfg", "c20r", div, show)
    return chk.finish()
