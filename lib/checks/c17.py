"""C17 — descriptive text can never change the structure of a generated script (DESIGN §5.C17)."""
import json, os
import driver as d


def show(r):
    return "%s script, slot %s, text %r emitted as %r" % (r.get("shell"), r.get("slot"), bytes(r.get("s", [])).decode("utf8", "replace"),
                                                       bytes(r.get("e", [])).decode("utf8", "replace"))


def run(chk):
    quick = chk.tier == "quick"
    w = d.workdir("c17")
    d.cargo_build()
    rp = os.path.join(w, "replay.ndjson")
    r = d.tlc("mc/MC_C17.tla", "mc/MC_C17_%s.cfg" % chk.tier, "c17", workers=8 if quick else 14, replay_out=rp, timeout=7200,
              extra=["-continue"], heap="8g")
    chk.add_tlc(r)
    out, div = os.path.join(w, "rep.json"), os.path.join(w, "div.ndjson")
    d.vh(["quote-replay", "--in", rp, "--out", out, "--div", div], timeout=7200)
    rep = json.load(open(out))
    chk.traces += rep.get("literals", 0)
    chk.evaluations += rep.get("literals", 0) + rep.get("scripts", 0)
    chk.nontrivial += rep["n"]
    chk.extra.update({"scripts_generated": rep.get("scripts", 0), "literals_compared": rep.get("literals", 0),
                      "escaping_divergences": rep["mismatch_count"], "slot_not_found": rep.get("slot_not_found", 0),
                      "spec_invariant_violated": r.violated or ""})
    for s in rep["samples"][:3]:
        chk.sample(s)
    d.judge_trace(chk, "trace/Trace_Quote.tla", "trace/Trace_Quote.cfg", "c17d", div, show, count=False)
    chk.rule = ("Every string of <= 3 (quick) / 4 (thorough) units over {' \" \\\\ $ ` ( ) [ ] : , newline tab a e-acute U+2018 U+2019} is placed "
                "between sentinels in the four descriptive slots (option help, subcommand about, possible-value help, positional help - written by zsh and nushell only) of a small command; "
                "all six real generators are run; the bash script must be byte-identical to the one for innocuous text; for the other five the "
                "emitted literal is extracted and compared with the transcribed escaping (Quote.tla), and the shell's lexer automaton "
                "(stage 1 quoting, stage 2 for fish `complete -a` and zsh _arguments specs) is run over it. "
                "distinct_nontrivial = distinct strings.")
    chk.exhaustive = True
    chk.assumptions = ["fish, zsh, PowerShell, elvish and nushell are not installed: their quoting automata are transcribed from the shells' "
                       "documentation; a verdict that rests on them is labelled model-only", "bash is executed (C16) and carries no descriptive text"]


def replay(chk, path):
    run(chk)
    return chk.finish()
