"""C19 — man pages always render, cover every visible item, and keep user text as text (DESIGN §5.C19)."""
import json, os
import driver as d
import families as F


def show(r):
    return "man def #%s slot=%s text=%r -> controls=%s" % (r.get("d"), r.get("slot"), bytes(r.get("s", [])).decode("latin1"), r.get("obs", {}).get("controls"))


def run(chk):
    quick = chk.tier == "quick"
    w = d.workdir("c19")
    d.cargo_build()
    defs = os.path.join(w, "defs.ndjson")
    open(defs, "w").write("".join(json.dumps(x) + "\n" for x in F.f_man()))
    rp = os.path.join(w, "replay.ndjson")
    r = d.tlc("mc/MC_C19.tla", "mc/MC_C19_%s.cfg" % chk.tier, "c19", workers=8 if quick else 14, env={"DEFS": defs}, replay_out=rp,
              timeout=7200, extra=["-continue"], heap="8g")
    chk.add_tlc(r)
    out, div = os.path.join(w, "rep.json"), os.path.join(w, "div.ndjson")
    d.vh(["man-replay", "--in", rp, "--out", out, "--div", div], timeout=7200)
    rep = json.load(open(out))
    chk.traces += rep["n"]
    chk.evaluations += rep["n"]
    chk.nontrivial += rep["n"]
    chk.extra["replay_divergences"] = rep["mismatch_count"]
    chk.extra["spec_invariant_violated"] = r.violated or ""
    for s in rep["samples"][:3]:
        chk.sample(s)
    if r.violated and rep["mismatch_count"] == 0:
        chk.violation("spec-level: Roff.tla invariant %s fails (text can become a control line in the model) but the pages agree with the model" % r.violated,
                      {"tlc": r.out[-3000:]})
    d.judge_trace(chk, "trace/Trace_Man.tla", "trace/Trace_Man.cfg", "c19d", div, show, count=False, benign=())
    chk.rule = ("6 page structures (flags/options/positionals with env, hidden items, help headings, possible values with and without help, "
                "visible and hidden subcommands, with/without version, author, after-help) x one text slot (about, after_help, author, "
                "version, argument help, help heading, subcommand about, possible-value help) x every string up to length 3 (quick) / 4 "
                "(thorough) over {. ' \\\\ - \" space newline a}; TLC checks that rendered text never starts a request and emits the "
                "skeleton of control lines; the real Man::render output is compared line class by line class. "
                "distinct_nontrivial = distinct (structure, slot, string).")
    chk.exhaustive = True
    chk.assumptions = ["rendering by man/groff is not available; only the line-level roff grammar is modelled",
                       "a hidden positional still appears in the SYNOPSIS line (synopsis() does not filter positionals); not claimed"]


def replay(chk, path):
    run(chk)
    return chk.finish()
