"""C16 — generated completion scripts cover the whole command tree and work in the shell (DESIGN §5.C16)."""
import json, os
import driver as d
import families as F


def show(r):
    t = lambda a: [bytes(x).decode("latin1") for x in a]
    if r.get("kind") == "bash-query":
        return "tree #%s before=%r cur=%r -> COMPREPLY=%r" % (r["d"], t(r["before"]), bytes(r["cur"]).decode("latin1"), t(r["reply"]))
    return "tree #%s %s generator: panicked=%s deterministic=%s missing=%r" % (r.get("d"), r.get("shell"), r.get("panicked"), r.get("deterministic"), t(r.get("missing", [])))


def run(chk):
    quick = chk.tier == "quick"
    w = d.workdir("c16")
    d.cargo_build()
    defs = os.path.join(w, "defs.ndjson")
    open(defs, "w").write("".join(json.dumps(x) + "\n" for x in F.f_gen()))
    os.environ["DEFS"] = defs
    rp = os.path.join(w, "replay.ndjson")
    r = d.tlc("mc/MC_C16.tla", "mc/MC_C16_%s.cfg" % chk.tier, "c16", workers=8 if quick else 14, env={"DEFS": defs}, replay_out=rp,
              timeout=7200, extra=["-continue"], heap="8g")
    chk.add_tlc(r)
    out, div = os.path.join(w, "rep.json"), os.path.join(w, "div.ndjson")
    d.vh(["gen-replay", "--defs", defs, "--in", rp, "--out", out, "--div", div, "--work", os.path.join(w, "bash")], timeout=7200)
    rep = json.load(open(out))
    chk.traces += rep["n"] + rep.get("generations", 0)
    chk.evaluations += rep["n"] + rep.get("generations", 0)
    chk.nontrivial += rep["n"]
    chk.extra.update({"bash_queries_run_in_real_bash": rep["n"], "generator_runs": rep.get("generations", 0),
                      "replay_divergences": rep["mismatch_count"], "script_model_divergences": rep.get("script_model_divergences", 0),
                      "bash_queries_skipped_generator_panicked": rep.get("bash_queries_skipped", 0), "spec_invariant_violated": r.violated or ""})
    for s in rep["samples"][:3]:
        chk.sample(s)
    d.judge_trace(chk, "trace/Trace_Gen.tla", "trace/Trace_Gen.cfg", "c16d", div, show, count=False)
    chk.rule = ("8 command trees (flat, aliases + hidden + version, three levels, hyphen/underscore names, prefix siblings, optional-value "
                "possible values, a mangling collision, a name containing __); all six generators run twice (terminate, deterministic, mention "
                "every option spelling, visible alias, non-hidden possible value and subcommand; fish: two levels); TLC enumerates every "
                "sequence of <= 2 (quick) / 3 (thorough) words before the cursor over the tree's subcommand words + a junk word x every "
                "partial word (every prefix of every word the addressed level offers, '', -, --) and the generated bash function is executed "
                "in a real bash 5.2 for each; reply compared with the transcribed automaton and with the intended level. "
                "distinct_nontrivial = bash queries executed.")
    chk.exhaustive = True
    chk.assumptions = ["zsh, fish, PowerShell, elvish and nushell are not installed: for them only terminates / deterministic / mentions are decided",
                       "mentions are located by sentinel substrings (fish short/long flags in their -s / -l spelling)"]


def replay(chk, path):
    run(chk)
    return chk.finish()
