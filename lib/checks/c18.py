"""C18 — the dynamic completion engine never fails and only offers valid continuations (DESIGN §5.C18)."""
import json, os
import driver as d
import families as F


def show(r):
    return "def #%s words=%r cursor=%s -> %s" % (r.get("d"), [bytes(w).decode("latin1") for w in r.get("words", [])], r.get("i"),
                                                 [bytes(c["value"]).decode("latin1") for c in r.get("obs", {}).get("cands", [])][:8])


def run(chk):
    quick = chk.tier == "quick"
    w = d.workdir("c18")
    d.cargo_build()
    total = {"n": 0, "newarg": 0, "judged": 0}
    for fam in ("core", "tree"):
        raw, defs = os.path.join(w, "defs_%s.ndjson" % fam), os.path.join(w, "ok_%s.ndjson" % fam)
        # the engine documents multicall as unsupported ("TODO: Multicall support"): such definitions have no reference level
        F.write([x for x in F.FAMILIES[fam]() if not x["cmd"]["s"]["multicall"]], raw)
        json.loads(d.vh(["gate", "--defs", raw, "--out", defs]).strip().splitlines()[-1])
        os.environ["DEFS"] = defs
        rp = os.path.join(w, "replay_%s.ndjson" % fam)
        r = d.tlc("mc/MC_C18.tla", "mc/MC_C18_%s.cfg" % chk.tier, "c18" + fam, workers=8 if quick else 14, env={"DEFS": defs},
                  replay_out=rp, timeout=7200, heap="8g")
        chk.add_tlc(r)
        if r.violated:
            chk.violation("spec-level: Complete.tla requires an id the parser does not accept (%s)" % r.violated, {"tlc": r.out[-3000:]})
            return
        out, div = os.path.join(w, "rep_%s.json" % fam), os.path.join(w, "div_%s.ndjson" % fam)
        d.vh(["complete-replay", "--defs", defs, "--in", rp, "--out", out, "--div", div], timeout=7200)
        rep = json.load(open(out))
        total["n"] += rep["n"]
        total["newarg"] += rep.get("new_arg_positions", 0)
        chk.traces += rep["n"]
        chk.evaluations += rep["n"]
        chk.nontrivial += rep.get("new_arg_positions", 0)
        chk.extra["%s_cheap_divergences" % fam] = rep["mismatch_count"]
        for s in rep["samples"][:2]:
            chk.sample(s)
        # every observation that offers option/subcommand candidates at a new-argument position is judged by the trace spec
        total["judged"] += d.judge_trace(chk, "trace/Trace_Complete.tla", "trace/Trace_Complete.cfg", "c18j" + fam, div, show, count=False, benign=())
    chk.extra.update({"engine_calls": total["n"], "new_argument_positions": total["newarg"], "observations_judged_by_trace_spec": total["judged"]})
    chk.rule = ("Every (definition of the core and tree families, words up to 2 (quick) / 3 (thorough) over the definition's alphabet incl. "
                "unknown flags, --, non-UTF-8, cursor on the last word); the reference level / pending option / escape state is the parser "
                "specification's own state after the preceding words; the real engine is called for each, panics are caught, and every "
                "answer that offers option or subcommand candidates where a new argument may start is judged by Trace_Complete.tla "
                "(sound: extends the word, belongs to the level, accepted by the parser; complete: every visible option/subcommand "
                "extending the word represented; hidden only if nothing visible). distinct_nontrivial = positions where a new argument may start.")
    chk.exhaustive = True
    chk.assumptions = ["value and path candidates are not constrained by the property and are ignored", "custom completers are outside the vocabulary",
                       "multicall definitions are excluded: the engine documents them as unsupported"]


def replay(chk, path):
    run(chk)
    return chk.finish()
