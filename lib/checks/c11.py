"""C11 — deterministic, re-entrant, build-timing independent (DESIGN §4.C11)."""
import json, os
import driver as d
import families as F


def show(r):
    t = lambda o: [bytes(x).decode("latin1") for x in o["argv"]] if o["k"] == "parse" else o["k"]
    return "def #%s history %r" % (r.get("d"), [t(o) for o in r.get("hist", [])][:12])


def run(chk):
    quick = chk.tier == "quick"
    w = d.workdir("c11")
    d.cargo_build()
    raw, defs = os.path.join(w, "defs.ndjson"), os.path.join(w, "ok.ndjson")
    F.write(F.f_hist(), raw)
    g = json.loads(d.vh(["gate", "--defs", raw, "--out", defs]).strip().splitlines()[-1])
    chk.extra["definitions"] = g["accepted"]
    os.environ["DEFS"] = defs
    rp = os.path.join(w, "replay.ndjson")
    r = d.tlc("mc/MC_C11.tla", "mc/MC_C11_%s.cfg" % chk.tier, "c11", workers=8 if quick else 14, env={"DEFS": defs}, replay_out=rp, timeout=7200, heap="8g")
    chk.add_tlc(r)
    if r.violated:
        chk.violation("spec-level: History.tla violates %s" % r.violated, {"tlc": r.out[-3000:]})
        return
    out, div = os.path.join(w, "rep.json"), os.path.join(w, "div.ndjson")
    d.vh(["hist-replay", "--defs", defs, "--in", rp, "--out", out, "--div", div], timeout=7200)
    rep = json.load(open(out))
    chk.traces += rep["n"]
    chk.evaluations += rep.get("steps", 0)
    chk.nontrivial += rep["n"]
    chk.extra["replay_divergences"] = rep["mismatch_count"]
    chk.extra["steps_replayed"] = rep.get("steps", 0)
    for s in rep["samples"][:3]:
        chk.sample(s)
    d.judge_trace(chk, "trace/Trace_History.tla", "trace/Trace_History.cfg", "c11d", div, show, count=False)
    n = 400 if quick else 20000
    tr = os.path.join(w, "trace.ndjson")
    d.vh(["hist-record", "--defs", defs, "--seed", chk.seed, "--n", n, "--maxops", 40 if quick else 150, "--out", tr], timeout=7200)
    d.judge_trace(chk, "trace/Trace_History.tla", "trace/Trace_History.cfg", "c11t", tr, show, timeout=7200)
    chk.evaluations += n
    chk.sample({"recorded_history_ops": len(json.loads(open(tr).readline())["hist"])})
    chk.rule = ("TLC enumerates every history of <= 3 (quick) / 4 (thorough) calls over {8-13 command lines per definition incl. failing, "
                "help/version and subcommand lines, build, render_help, render_long_help, render_usage, clone} x 7 definitions; each is "
                "replayed on one real Command through try_get_matches_from_mut, every parse compared with the specification, with a fresh "
                "definition and with a clone (observation and rendered message); random histories of up to 40/150 calls are recorded and "
                "validated by Trace_History.tla. distinct_nontrivial = distinct histories.")
    chk.exhaustive = True
    chk.assumptions = ["the same argv[0] is used for every call (as the property states)"]


def replay(chk, path):
    run(chk)
    return chk.finish()
