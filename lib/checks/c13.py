"""C13 — lexing is a lossless, consistent decomposition (DESIGN §5.C13)."""
import json, os
import driver as d


def run(chk):
    quick = chk.tier == "quick"
    w = d.workdir("c13")
    d.cargo_build()
    # 1. design level: all interleavings (no VIEW) on short strings, declarative invariants
    r1 = d.tlc("mc/MC_C13.tla", "mc/MC_C13_paths.cfg" if quick else "mc/MC_C13_paths_thorough.cfg", "c13p",
               workers=8 if quick else 14, timeout=3000)
    chk.add_tlc(r1)
    if r1.violated:
        chk.violation("spec-level invariant %s violated in Lex.tla (transcription contradicts declaration)" % r1.violated,
                      {"tlc": r1.out[-3000:]})
        return
    # 2. spec -> impl: every (byte string, ShortFlags state) with the full fan-out of calls
    rp = os.path.join(w, "replay.ndjson")
    r2 = d.tlc("mc/MC_C13.tla", "mc/MC_C13_quick.cfg" if quick else "mc/MC_C13_thorough.cfg", "c13e",
               workers=8 if quick else 14, replay_out=rp, timeout=3000)
    chk.add_tlc(r2)
    if r2.violated:
        chk.violation("spec-level invariant %s violated" % r2.violated, {"tlc": r2.out[-3000:]})
        return
    out = os.path.join(w, "replay.json")
    d.vh(["c13-replay", "--in", rp, "--out", out])
    rep = json.load(open(out))
    chk.traces += rep["n"]
    chk.evaluations += rep["n"] + rep.get("sf_transitions", 0)
    chk.nontrivial += rep["n"]
    divergent = rep["mismatches"]
    for s in rep["samples"][:2]:
        chk.sample({"kind": "replayed TLC state", "b": s["b"], "path": s["path"], "rets": s["rets"]})
    # 3. impl -> spec: random byte strings (<= 24/64 bytes) x random call sequences
    n = 4000 if quick else 200000
    tr = os.path.join(w, "trace.ndjson")
    d.vh(["c13-record", "--seed", chk.seed, "--n", n, "--maxlen", 24 if quick else 64,
          "--maxcalls", 30 if quick else 80, "--out", tr])
    parts = [tr]
    # divergent replay records are judged by the declarative predicates in the trace spec too
    if divergent:
        dv = os.path.join(w, "divergent.ndjson")
        with open(dv, "w") as f:
            for m in divergent:
                g = m.get("got") or {"b": m["rec"]["b"], "path": m["rec"]["path"], "panicked": True}
                g.setdefault("panicked", False)
                f.write(json.dumps(g) + "\n")
        parts.append(dv)
    for i, p in enumerate(parts):
        lines = [json.loads(x) for x in open(p)]
        r3 = d.tlc_trace("trace/Trace_C13.tla", "trace/Trace_C13.cfg", "c13t%d" % i, p, timeout=3000)
        chk.add_tlc(r3)
        chk.traces += len(lines)
        chk.evaluations += len(lines)
        chk.nontrivial += len({json.dumps(x["b"]) for x in lines if x.get("hasSF")})
        for mm in r3.mismatch:
            ln, verdict = mm[0], mm[1]
            rec = lines[ln - 1]
            if verdict == "model" and i == 0:
                chk.extra["benign_divergences"] = chk.extra.get("benign_divergences", 0) + 1
                continue
            chk.violation("clap_lex observation breaks C13 (%s) on bytes %s path %s" % (verdict, rec["b"], rec.get("path")), rec)
        if i == 0 and lines:
            chk.sample({"kind": "recorded trace line", **{k: lines[0][k] for k in ("b", "path", "rets")}})
    chk.extra["replay_divergences"] = len(divergent)
    chk.rule = ("TLC enumerates every byte string over a 12-byte boundary alphabet (len<=3 quick, <=5 thorough, plus the same "
                "prefixed by '-') and every ShortFlags state reachable by call interleavings; each distinct (string, state) is "
                "replayed on clap_lex with the fan-out of all 8 calls; random strings x call sequences are validated by "
                "Trace_C13.tla. Non-trivial = distinct strings with a short cluster.")
    chk.exhaustive = True
    chk.assumptions = ["unix OsStr encoding (bytes)", "absence of UB in unsafe blocks is not observable to TLC"]


def replay(chk, path):
    case = json.load(open(path))["case"]
    w = d.workdir("c13r")
    tr = os.path.join(w, "one.ndjson")
    rp = os.path.join(w, "in.ndjson")
    open(rp, "w").write(json.dumps({"b": case["b"], "path": case.get("path", []), "cls": {}, "hasSF": False, "rets": [], "next": {}}) + "\n")
    out = os.path.join(w, "o.json")
    d.vh(["c13-replay", "--in", rp, "--out", out])
    rep = json.load(open(out))
    g = rep["mismatches"][0].get("got") if rep["mismatches"] else rep["samples"][0]
    if g is None:
        print("VIOLATION property=C13 replay=%s" % path)
        return 1
    g["panicked"] = False
    open(tr, "w").write(json.dumps(g) + "\n")
    r = d.tlc_trace("trace/Trace_C13.tla", "trace/Trace_C13.cfg", "c13r", tr)
    if r.mismatch:
        print("VIOLATION property=C13 replay=%s" % path)
        return 1
    print("OK replay holds")
    return 0
