"""C12 — help and usage always render, list every visible item and nothing hidden (DESIGN §5.C12)."""
import json, os
import driver as d
import families as F


def show(r):
    return "def #%s path=%r mode=%s width=%s -> %s" % (r.get("d"), [bytes(p).decode("latin1") for p in r.get("path", [])], r.get("mode"), r.get("w"),
                                                       json.dumps(r.get("obs"))[:200])


def run(chk):
    quick = chk.tier == "quick"
    w = d.workdir("c12")
    d.cargo_build()
    raw, defs = os.path.join(w, "defs.ndjson"), os.path.join(w, "ok.ndjson")
    F.write(F.f_help(seed=chk.seed, triples=250 if quick else 2500), raw)
    g = json.loads(d.vh(["gate", "--defs", raw, "--out", defs]).strip().splitlines()[-1])
    chk.extra["definitions"] = g["accepted"]
    chk.extra["gate_rejected"] = g["rejected"]
    os.environ["DEFS"] = defs
    rp = os.path.join(w, "replay.ndjson")
    r = d.tlc("mc/MC_C12.tla", "mc/MC_C12.cfg", "c12", workers=8 if quick else 14, env={"DEFS": defs}, replay_out=rp, timeout=7200,
              extra=["-continue"])
    chk.add_tlc(r)
    widths = "0,1,2,5,8,10,13,20,30,50,100,200" if quick else ",".join(str(x) for x in range(0, 201))
    out, div = os.path.join(w, "rep.json"), os.path.join(w, "div.ndjson")
    d.vh(["help-replay", "--defs", defs, "--in", rp, "--out", out, "--div", div, "--widths", widths], timeout=7200)
    rep = json.load(open(out))
    chk.traces += rep.get("renderings", 0)
    chk.evaluations += rep.get("renderings", 0)
    chk.nontrivial += rep["n"]
    chk.extra["replay_divergences"] = rep["mismatch_count"]
    chk.extra["spec_invariant_violated"] = r.violated or ""
    for s in rep["samples"][:3]:
        chk.sample(s)
    if r.violated and rep["mismatch_count"] == 0:
        chk.violation("spec-level: HelpModel.tla arithmetic/dispatch invariant %s fails but every rendering agrees with the model" % r.violated,
                      {"tlc": r.out[-3000:]})
    d.judge_trace(chk, "trace/Trace_Help.tla", "trace/Trace_Help.cfg", "c12d", div, show, count=False, benign=())
    chk.rule = ("Definitions: every single, every ordered pair and %d random triples of 16 argument shapes (short-only / long-only / both, "
                "flags, counts, options with optional / = / multiple values, positionals, possible values with a hidden one) with random "
                "hide / hide_short_help / hide_long_help / next_line_help attributes, plus trees with hidden and flag subcommands; TLC checks "
                "the column arithmetic sites and help dispatch per subcommand level and emits what each rendering must / must not mention; "
                "the real -h / --help errors, render_help, render_long_help and render_usage are rendered at %s widths and judged; every level is also "
                "rendered (short and long) under three custom help templates (default-like with every text tag; the separate {options} / "
                "{positionals} / {subcommands} tags with an unknown tag and an unclosed brace; a single tag), judged by P12Template: no panic, "
                "bounded padding, nothing hidden anywhere. "
                "distinct_nontrivial = distinct (definition, subcommand path) levels." % (250 if quick else 2500, "12" if quick else "201"))
    chk.exhaustive = False
    chk.assumptions = ["names are ASCII sentinels so that a byte is a column and mentions can be located by substring",
                       "the listing clauses are judged for the default help template only (as stated); custom templates are judged for rendering, padding and hidden items"]


def replay(chk, path):
    run(chk)
    return chk.finish()
