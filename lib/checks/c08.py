"""C08 — equivalent spellings parse to identical matches (DESIGN §4.C08)."""
import json, os
import driver as d
import families as F


def show(r):
    t = lambda a: [bytes(x).decode("latin1") for x in a]
    return "def #%s: %r vs %r" % (r.get("d"), t(r.get("a", [])), t(r.get("b", [])))


def run(chk):
    quick = chk.tier == "quick"
    w = d.workdir("c08")
    d.cargo_build()
    raw, defs = os.path.join(w, "defs.ndjson"), os.path.join(w, "ok.ndjson")
    F.write(F.f_spell(), raw)
    g = json.loads(d.vh(["gate", "--defs", raw, "--out", defs]).strip().splitlines()[-1])
    chk.extra["definitions"] = g["accepted"]
    os.environ["DEFS"] = defs
    rp = os.path.join(w, "replay.ndjson")
    r = d.tlc("mc/MC_Spell.tla", "mc/MC_Spell_%s.cfg" % chk.tier, "c08", workers=8 if quick else 14, env={"DEFS": defs},
              replay_out=rp, timeout=7200, extra=["-continue"], heap="8g")
    chk.add_tlc(r)
    out, div = os.path.join(w, "rep.json"), os.path.join(w, "div.ndjson")
    d.vh(["spell-replay", "--defs", defs, "--in", rp, "--out", out, "--div", div], timeout=7200)
    rep = json.load(open(out))
    chk.traces += 2 * rep["n"]
    chk.evaluations += 2 * rep["n"]
    chk.nontrivial += rep["n"]
    chk.extra["replay_divergences"] = rep["mismatch_count"]
    chk.extra["spec_invariant_violated"] = r.violated or ""
    for s in rep["samples"][:3]:
        chk.sample(s)
    if r.violated and rep["mismatch_count"] == 0:
        # the model itself breaks the invariant and the implementation agrees with the model everywhere:
        # re-judge every pair on the implementation's observations
        d.vh(["spell-replay", "--defs", defs, "--in", rp, "--out", out, "--div", div], env={"VH_ALL_DIV": "1"})
    d.judge_trace(chk, "trace/Trace_Spell.tla", "trace/Trace_Spell.cfg", "c08d", div, show, count=False)
    n = 3000 if quick else 100000
    tr = os.path.join(w, "trace.ndjson")
    d.vh(["spell-record", "--defs", defs, "--seed", chk.seed, "--n", n, "--maxelems", 6 if quick else 10, "--out", tr])
    d.judge_trace(chk, "trace/Trace_Spell.tla", "trace/Trace_Spell.cfg", "c08t", tr, show)
    chk.evaluations += 2 * n
    chk.sample(json.loads(open(tr).readline()))
    chk.rule = ("Intended invocations = sequences of elements (flag, option+value, short cluster, positional tail, subcommand) over 11 "
                "definitions; TLC explores every sequence up to 2 (quick) / 4 (thorough) elements x every combination of spellings "
                "(--o=v / --o v / -ov / -o v / -o=v, clusters, aliases, unique prefixes, explicit --); both lines are parsed by the real "
                "clap and compared (observation and ArgMatches ==); random sequences up to 6/10 elements are recorded and validated by "
                "Trace_Spell.tla. distinct_nontrivial = distinct (canonical, variant) line pairs.")
    chk.exhaustive = True
    chk.assumptions = ["`--` is not an equivalence under allow_missing_positional or with a `last` positional (documented routing)",
                       "attached short values are not an equivalence when a hyphen-accepting positional exists"]


def replay(chk, path):
    run(chk)
    return chk.finish()
