"""C15 — derived parsers are exactly their command plus field extraction, and round-trip (DESIGN §5.C15)."""
import json, os, subprocess
import driver as d


def show(r):
    t = lambda a: [bytes(x).decode("latin1") for x in a]
    return "corpus type #%s %s argv=%r update=%r" % (r.get("d"), r.get("mode"), t(r.get("argv", [])), t(r.get("upd", [])))


def run(chk):
    quick = chk.tier == "quick"
    w = d.workdir("c15")
    # the corpus source and its descriptions are generated from one description so they cannot drift
    subprocess.run(["python3", os.path.join(d.VERIF, "lib", "corpus_gen.py")], check=True, stdout=subprocess.DEVNULL)
    d.cargo_build()
    defs = os.path.join(d.VERIF, "lib", "corpus.ndjson")
    os.environ["DEFS"] = defs
    rp = os.path.join(w, "replay.ndjson")
    r = d.tlc("mc/MC_C15.tla", "mc/MC_C15_%s.cfg" % chk.tier, "c15", workers=8 if quick else 14, env={"DEFS": defs}, replay_out=rp,
              timeout=7200, extra=["-continue"], heap="8g")
    chk.add_tlc(r)
    out, div = os.path.join(w, "rep.json"), os.path.join(w, "div.ndjson")
    d.vh(["derive-replay", "--defs", defs, "--in", rp, "--out", out, "--div", div], timeout=7200)
    rep = json.load(open(out))
    chk.traces += rep["n"]
    chk.evaluations += rep["n"] + rep.get("round_trips", 0)
    chk.nontrivial += rep["n"]
    chk.extra.update({"replay_divergences": rep["mismatch_count"], "round_trips": rep.get("round_trips", 0), "updates": rep.get("updates", 0),
                      "enum_names_checked": rep.get("enum_names", 0), "spec_invariant_violated": r.violated or ""})
    for s in rep["samples"][:3]:
        chk.sample(s)
    if r.violated and rep["mismatch_count"] == 0:
        chk.violation("spec-level: Derive.tla invariant %s fails although the corpus agrees with the model" % r.violated, {"tlc": r.out[-3000:]})
    d.judge_trace(chk, "trace/Trace_Derive.tla", "trace/Trace_Derive.cfg", "c15d", div, show, count=False)
    chk.rule = ("A compiled corpus of 5 derive inputs (generated together with their descriptions by lib/corpus_gen.py) spanning bool, counter, "
                "required, Option, Option<Option>, Vec, Option<Vec>, default_value_t, value enum (aliases, skipped variant, ignore_case), "
                "positional, positional Vec, value_delimiter, global, flatten, required and optional subcommand enums with aliases; TLC "
                "enumerates every argv up to 2 (quick) / 3 (thorough) tokens over each type's alphabet and, from every successfully parsed value, "
                "every update line up to 1 / 2 tokens; each is run through T::try_parse_from, T::command(), from_arg_matches and "
                "try_update_from of the real derive output; parsed values are printed back (round trip). distinct_nontrivial = distinct "
                "(type, argv[, update]) cases.")
    chk.exhaustive = True
    chk.assumptions = ["derive inputs outside the corpus and compile-time diagnostics are not covered",
                       "update histories are checked on types without a subcommand field"]


def replay(chk, path):
    run(chk)
    return chk.finish()
