"""C03 — decided by the shared parser campaign (lib/campaign.py, spec/Parser.tla, spec/Props.tla)."""
import json
import campaign, driver as d


def run(chk):
    campaign.run_property(chk, "C03")


def replay(chk, path):
    case = json.load(open(path))["case"]
    print("replaying recorded case against the current tree:", case.get("label"), case.get("argv"))
    import os
    os.environ["VERIF_NOCACHE"] = "1"
    campaign.run_property(chk, "C03")
    return chk.finish()
