"""C14 — OS-string helpers and the argument cursor (DESIGN §5.C14)."""
import json, os
import driver as d


def run(chk):
    quick = chk.tier == "quick"
    w = d.workdir("c14")
    d.cargo_build()
    suffix = "quick" if quick else "thorough"
    for mode, sub in (("cursor", "c14-cursor-replay"), ("helpers", "c14-helpers-replay")):
        rp = os.path.join(w, mode + ".ndjson")
        r = d.tlc("mc/MC_C14.tla", "mc/MC_C14_%s_%s.cfg" % (mode, suffix), "c14" + mode, workers=8 if quick else 14,
                  replay_out=rp, timeout=3000)
        chk.add_tlc(r)
        if r.violated:
            chk.violation("spec-level law %s violated in Cursor.tla/Bytes.tla" % r.violated, {"tlc": r.out[-3000:]})
            return
        out = os.path.join(w, mode + ".json")
        d.vh([sub, "--in", rp, "--out", out])
        rep = json.load(open(out))
        chk.traces += rep["n"]
        chk.evaluations += rep["n"] + rep.get("transitions", 0)
        chk.nontrivial += rep["n"]
        chk.extra[mode + "_replayed"] = rep["n"]
        for s in rep["samples"][:2]:
            chk.sample({"kind": "replayed " + mode, **s})
        for m in rep["mismatches"]:
            # the model is the property here ("behave like their simple models"): any divergence is a violation
            what = "RawArgs %s diverges from the list model: %s" % (m.get("kind", mode), json.dumps(m.get("rec"))[:300])
            if "panic" in m:
                what = "clap_lex panics (%s at %s) on %s" % (m["panic"], m.get("at"), json.dumps(m.get("rec"))[:300])
            chk.violation(what, m)
    if not quick:
        # unbounded side proof of the seek arithmetic (TLAPS); a proof that no longer goes through is reported in the
        # evidence only - it speaks about the specification, the verdicts above speak about the code
        import subprocess, shutil
        pd = os.path.join(w, "proofs")
        shutil.copytree(os.path.join(d.SPEC, "proofs"), pd)
        try:
            p = subprocess.run(["timeout", "900", "tlapm", "--threads", "8", "SeekArith.tla"], cwd=pd, capture_output=True, text=True)
            m = [l for l in (p.stdout + p.stderr).splitlines() if "obligations" in l]
            chk.extra["tlaps_seek_arithmetic"] = m[-1].strip() if m else "tlapm gave no summary (rc=%d)" % p.returncode
        except Exception as e:
            chk.extra["tlaps_seek_arithmetic"] = "not run: %s" % e
    n = 4000 if quick else 200000
    tr = os.path.join(w, "trace.ndjson")
    d.vh(["c14-record", "--seed", chk.seed, "--n", n, "--maxops", 20 if quick else 60, "--out", tr])
    lines = [json.loads(x) for x in open(tr)]
    r3 = d.tlc_trace("trace/Trace_C14.tla", "trace/Trace_C14.cfg", "c14t", tr, timeout=3000)
    chk.add_tlc(r3)
    chk.traces += len(lines)
    chk.evaluations += len(lines)
    chk.nontrivial += len({json.dumps(x.get("path") or [x.get("h"), x.get("n")]) for x in lines})
    for mm in r3.mismatch:
        rec = lines[mm[0] - 1]
        if rec.get("panicked"):
            what = "clap_lex panics (%s at %s) on recorded %s run" % (rec["panic"]["msg"], rec["panic"]["at"], rec["t"])
        else:
            what = "recorded %s run is not a behaviour of the list/bytes model" % rec["t"]
        chk.violation(what, rec)
    chk.sample({"kind": "recorded trace line", **lines[0]})
    chk.rule = ("TLC enumerates all cursor histories (<=5 ops quick / <=7 thorough over next, peek, remaining, is_end, insert of 0-2 "
                "items, seek x 3 whences x 12 offset classes incl. i64::MIN/MAX) on lists of 0..3 items and all haystacks (<=4/5 "
                "bytes over a 6-byte alphabet) x 10 needles; every distinct state is replayed with the fan-out of all operations; "
                "random histories/haystacks are validated by Trace_C14.tla. Non-trivial = distinct histories / pairs.")
    chk.exhaustive = True
    chk.assumptions = ["i64/u64 extremes are represented by scaled classes in TLC and by the true extremes in the harness"]


def replay(chk, path):
    case = json.load(open(path))["case"]
    print("replay case:", json.dumps(case)[:500])
    run(chk)
    return chk.finish()
