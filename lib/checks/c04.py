"""C04 — typed values are exactly what the value parser's language admits (DESIGN §4.C04)."""
import json, os
import driver as d


def show(rec):
    if rec.get("mode") == "access":
        return "typed access %s" % json.dumps(rec.get("c"))
    s = bytes(rec.get("s", [])).decode("latin1")
    return "%s parser %s on %r -> %s" % (rec.get("mode"), rec.get("t") or rec.get("pk"), s, json.dumps(rec.get("got")))


def run(chk):
    quick = chk.tier == "quick"
    w = d.workdir("c04")
    d.cargo_build()
    plan = [("ranged", "mc/MC_C04_ranged_%s.cfg" % chk.tier, "c04-ranged-replay"),
            ("other", "mc/MC_C04_other.cfg", "c04-other-replay"),
            ("access", "mc/MC_C04_access_%s.cfg" % chk.tier, "c04-access-replay")]
    for mode, cfg, sub in plan:
        rp = os.path.join(w, mode + ".ndjson")
        r = d.tlc("mc/MC_C04.tla", cfg, "c04" + mode, workers=8 if quick else 14, replay_out=rp, timeout=7000)
        chk.add_tlc(r)
        if r.violated:
            chk.violation("spec-level: Values.tla mechanism contradicts the declared language (%s)" % r.violated, {"tlc": r.out[-3000:]})
            return
        out, div = os.path.join(w, mode + ".json"), os.path.join(w, mode + ".div")
        d.vh([sub, "--in", rp, "--out", out, "--div", div])
        rep = json.load(open(out))
        ev = rep.get("evaluations", 0) + rep.get("transitions", 0)
        chk.traces += ev
        chk.evaluations += ev
        chk.nontrivial += rep["n"]
        chk.extra[mode + "_replay_divergences"] = rep["mismatch_count"]
        if rep.get("ctor_rejected"):
            chk.extra["model_imprecision_ctor_rejected"] = rep["ctor_rejected"]
        for s in rep["samples"][:2]:
            chk.sample({"mode": mode, **s})
        d.judge_trace(chk, "trace/Trace_C04.tla", "trace/Trace_C04.cfg", "c04d" + mode, div, show, count=False)
    n = 6000 if quick else 400000
    tr = os.path.join(w, "trace.ndjson")
    d.vh(["c04-record", "--seed", chk.seed, "--n", n, "--out", tr])
    d.judge_trace(chk, "trace/Trace_C04.tla", "trace/Trace_C04.cfg", "c04t", tr, show)
    chk.evaluations += n
    chk.nontrivial += len({l for l in open(tr)})
    chk.sample(json.loads(open(tr).readline()))
    chk.rule = ("TLC enumerates (target width x constructor x range) with bounds at type min/max +-1, -1, 0, 1 and for each the candidate "
                "strings (all strings <= 3 over {+,-,0,1,9,space,a,0xFF} plus signed/zero-padded/suffixed spellings of every boundary "
                "number and 19-21 digit numbers); bool/boolish/falsey/possible/enum (EnumValueParser over a ValueEnum with an alias and a hidden variant)/non-empty/string/os/pathbuf parsers over all case variants and "
                "near-misses of their literals; typed-access histories over 4 ids x 2 types. Every case is parsed by the real Command and "
                "read back with get_one::<T>. Random 64-bit ranges/strings are recorded and validated by Trace_C04.tla. "
                "Non-trivial = distinct (parser, range) configurations + distinct recorded lines.")
    chk.exhaustive = True
    chk.assumptions = ["value_parser! inference for user types is outside the vocabulary", "unicode case folding of possible values is exercised on ASCII only"]


def replay(chk, path):
    case = json.load(open(path))["case"]["rec"]
    w = d.workdir("c04r")
    print("re-running the full quick check; the recorded case was:", show(case))
    run(chk)
    return chk.finish()
