"""Definition families for the parser core (DESIGN §4): plain-JSON command definitions in the
shared vocabulary, each with a token alphabet derived from it. Consumed by TLC
(ndJsonDeserialize) and by the Rust harness (def.rs).

Everything that is matched against argv is a byte array; ids are strings.
"""
import itertools, json, random

INF = 1000000
GLOBAL_SETTINGS = ["ignore_errors", "args_override_self", "dont_delimit_trailing_values", "infer_long_args",
                   "infer_subcommands", "disable_help_flag", "disable_version_flag", "disable_help_subcommand",
                   "propagate_version"]
LOCAL_SETTINGS = ["next_line_help", "arg_required_else_help", "allow_missing_positional", "subcommand_required",
                  "allow_external_subcommands", "args_conflicts_with_subcommands",
                  "subcommand_precedence_over_arg", "subcommand_negates_reqs", "no_binary_name", "multicall",
                  # the command-level (doc-hidden) forms of three argument settings: applied to the arguments at build time
                  "allow_hyphen_values", "allow_negative_numbers", "trailing_var_arg",
                  # help layout only (no effect on parse results): subcommands listed inline in the parent's help
                  "flatten_help"]
SETTINGS = GLOBAL_SETTINGS + LOCAL_SETTINGS


def b(s):
    if isinstance(s, (bytes, bytearray)):
        return list(s)
    return list(s.encode("utf-8"))


def arg(id, short=None, long=None, aliases=(), valiases=(), saliases=(), action="", num=None, required=False, glob=False, last=False,
        tva=False, hyphen=False, negnum=False, req_eq=False, delim=None, term=None, defaults=(), missing=(),
        default_ifs=(), env=None, exclusive=False, conflicts=(), overrides=(), requires=(), requires_ifs=(),
        req_if_eq=(), req_if_eq_all=(), req_unless=(), req_unless_all=(), ignore_case=False, vp=None, index=0,
        hide=False, hide_short=False, hide_long=False, nlh=False, help=None, hide_pv=False, disp=-1, heading="", valnames=0):
    """num: None (unset) or (min, max) with max None = unbounded."""
    a = {
        "id": id, "idb": b(id), "short": b(short) if short else [], "long": b(long) if long else [],
        # aliases: every alias the parser answers to; valiases: the visible ones among them (Arg::visible_alias)
        "aliases": [b(x) for x in aliases] + [b(x) for x in valiases], "valiases": [b(x) for x in valiases],
        "saliases": [b(x) for x in saliases], "heading": heading, "valnames": valnames, "action": action,
        "nset": num is not None, "nmin": num[0] if num else 0, "nmax": (INF if num[1] is None else num[1]) if num else 0,
        "required": required, "global": glob, "last": last, "tva": tva, "hyphen": hyphen, "negnum": negnum,
        "req_eq": req_eq, "delim": ord(delim) if delim else 0, "term": b(term) if term else [],
        "defaults": [b(x) for x in defaults], "missing": [b(x) for x in missing],
        "default_ifs": [{"id": i, "eq": v is not None, "val": b(v or ""), "has_def": d is not None, "def": b(d or "")}
                        for (i, v, d) in default_ifs],
        "has_env": env is not None, "env": b(env or ""),
        "exclusive": exclusive, "conflicts": list(conflicts), "overrides": list(overrides),
        "requires": list(requires), "requires_ifs": [{"val": b(v), "id": i} for (v, i) in requires_ifs],
        "req_if_eq": [{"id": i, "val": b(v)} for (i, v) in req_if_eq],
        "req_if_eq_all": [{"id": i, "val": b(v)} for (i, v) in req_if_eq_all],
        "req_unless": list(req_unless), "req_unless_all": list(req_unless_all),
        "ignore_case": ignore_case, "index": index, "hide": hide,
        "hide_short": hide_short, "hide_long": hide_long, "nlh": nlh, "help": b(help) if help else [], "hide_pv": hide_pv, "disp": disp,
        "vp": dict(vp) if vp else {"k": "string", "lo": 0, "hi": 0, "pvs": []},
    }
    a["vp"].setdefault("pv_hide", [False] * len(a["vp"]["pvs"]))
    a["vp"].setdefault("pv_help", [[] for _ in a["vp"]["pvs"]])
    a["vp"].setdefault("pv_aliases", [[] for _ in a["vp"]["pvs"]])
    return a


def vp_int(lo, hi):
    return {"k": "int", "lo": lo, "hi": hi, "pvs": [], "pv_hide": [], "pv_help": []}


def vp_kind(k):
    """a built-in value parser without parameters: os, path, boolish, falsey, nonempty"""
    return {"k": k, "lo": 0, "hi": 0, "pvs": [], "pv_hide": [], "pv_help": []}


def vp_possible(*names, hide=(), helps=None):
    return {"k": "possible", "lo": 0, "hi": 0, "pvs": [b(n) for n in names], "pv_hide": [n in hide for n in names],
            "pv_help": [b((helps or {}).get(n, "")) for n in names]}


def group(id, args, required=False, multiple=False, requires=(), conflicts=(), via_arg=(), implicit=False):
    """via_arg: members that join through Arg::group(s) instead of ArgGroup::args (listed in `args` as well: that is what
    the built command holds); implicit: the group is never declared, it exists only because arguments name it"""
    return {"id": id, "args": list(args) + [x for x in via_arg if x not in args], "required": required, "multiple": multiple,
            "requires": list(requires), "conflicts": list(conflicts), "via_arg": list(via_arg), "implicit": implicit}


def cmd(name, args=(), groups=(), subs=(), aliases=(), short_flag=None, long_flag=None, version=False,
        long_flag_aliases=(), short_flag_aliases=(), hide=False, about=None, term_width=0, **settings):
    s = {k: False for k in SETTINGS}
    for k, v in settings.items():
        assert k in s, k
        s[k] = v
    return {"name": b(name), "aliases": [b(x) for x in aliases], "short_flag": b(short_flag) if short_flag else [],
            "long_flag": b(long_flag) if long_flag else [], "long_flag_aliases": [b(x) for x in long_flag_aliases],
            "short_flag_aliases": [b(x) for x in short_flag_aliases], "version": version, "s": s,
            "hide": hide, "about": b(about) if about else [], "term_width": term_width,
            "args": list(args), "groups": list(groups), "subs": list(subs)}


# ---------------------------------------------------------------- alphabets
def spellings(a, infer=False):
    """token shapes that exercise one argument"""
    out = []
    takes = a["action"] in ("", "Set", "Append") and not (a["nset"] and a["nmax"] == 0)
    val = b("v")
    if a["vp"]["k"] == "int":
        val = b(str(a["vp"]["lo"]))
    if a["vp"]["k"] == "possible":
        val = a["vp"]["pvs"][0]
    if a["long"]:
        out.append(b("--") + a["long"])
        if takes:
            out.append(b("--") + a["long"] + b("=") + val)
        else:
            out.append(b("--") + a["long"] + b("=x"))
        for al in a["aliases"]:
            out.append(b("--") + al)
        if infer and len(a["long"]) > 1:
            out.append(b("--") + a["long"][:-1])
            out.append(b("--") + a["long"][:1])
    for sa in a.get("saliases", []):
        out.append([45] + sa)
    if a["short"]:
        out.append([45] + a["short"])
        if takes:
            out.append([45] + a["short"] + val)
            out.append([45] + a["short"] + [61] + val)
    return out


def alphabet(c, extra=(), values=("v", "w"), with_noise=True, max_tokens=26):
    toks = []

    def add(t):
        t = list(t)
        if t not in toks:
            toks.append(t)
    infer = c["s"]["infer_long_args"]
    shorts = [a["short"] for a in c["args"] if a["short"]]
    for a in c["args"]:
        for t in spellings(a, infer):
            add(t)
        if a["delim"]:
            add(b("a") + b(chr(a["delim"])) + b("b"))
        if a["term"]:
            add(a["term"])
        if a["vp"]["k"] == "int":
            add(b(str(a["vp"]["hi"] + 1)))
        if a["vp"]["k"] == "possible":
            add(b("zzz"))
        if a["negnum"] or a["hyphen"]:
            add(b("-1"))
            add(b("-x"))
        for d in a["default_ifs"]:
            if d["eq"]:
                add(d["val"])
        for r in a["requires_ifs"] + a["req_if_eq"] + a["req_if_eq_all"]:
            add(r["val"])
    if len(shorts) >= 2:
        add([45] + shorts[0] + shorts[1])
        add([45] + shorts[1] + shorts[0])
    for s in c["subs"]:
        add(s["name"])
        for al in s["aliases"]:
            add(al)
        if s["short_flag"]:
            add([45] + s["short_flag"])
            if shorts:
                add([45] + shorts[0] + s["short_flag"])
                add([45] + s["short_flag"] + shorts[0])
        if s["long_flag"]:
            add(b("--") + s["long_flag"])
        for la in s["long_flag_aliases"]:
            add(b("--") + la)
            if c["s"]["infer_subcommands"] and len(la) > 2:
                add(b("--") + la[:3])
        for sa in s["short_flag_aliases"]:
            add([45] + sa)
        if c["s"]["infer_subcommands"] and len(s["name"]) > 1:
            add(s["name"][:-1])
            add(s["name"][:1])
        # tokens of the next level (one level deep is enough; the sub gets its own alphabet when entered)
    for v in values:
        add(b(v))
    for e in extra:
        add(b(e) if isinstance(e, str) else e)
    if with_noise:
        add(b("--"))
        add(b("-"))
        add([])
        add(b("--zz"))
        add(b("-z"))
        add([0xFF])
        add(b("--") + [0xFF])
        if shorts:
            add([45] + shorts[0] + [0xFF])
        if not c["s"]["disable_help_flag"]:
            add(b("--help"))
            add(b("-h"))
        if c["subs"] and not c["s"]["disable_help_subcommand"]:
            add(b("help"))
        if c["version"]:
            add(b("--version"))
    return toks[:max_tokens] if max_tokens else toks


def tree_alphabet(c, **kw):
    """alphabet of a tree: union of the levels' alphabets (deduplicated)"""
    toks = []
    stack = [(c, {k: False for k in GLOBAL_SETTINGS}, [])]
    while stack:
        x, inherited, globs = stack.pop(0)
        eff = dict(x)
        eff["s"] = dict(x["s"])
        for k in GLOBAL_SETTINGS:
            eff["s"][k] = eff["s"][k] or inherited[k]
        eff["args"] = list(x["args"]) + [g for g in globs if g["id"] not in {a["id"] for a in x["args"]}]
        for t in alphabet(eff, max_tokens=0, **kw):
            if t not in toks:
                toks.append(t)
        g2 = [a for a in eff["args"] if a["global"]]
        for s in x["subs"]:
            stack.append((s, {k: eff["s"][k] for k in GLOBAL_SETTINGS}, g2))
    return toks


def with_alpha(c, fam, label, max_tokens=28, **kw):
    al = tree_alphabet(c, **kw)
    if max_tokens and len(al) > max_tokens:
        al = al[:max_tokens]
    return {"fam": fam, "label": label, "cmd": c, "alphabet": al, "env": {}}


# ---------------------------------------------------------------- F-core
def f_core():
    D = []

    def add(label, c, **kw):
        D.append(with_alpha(c, "core", label, **kw))
    add("flags", cmd("p", [arg("a", "a", "aa", action="SetTrue"), arg("b", "b", "bb", action="SetFalse"),
                           arg("c", "c", "cc", action="Count")]))
    add("opt-set", cmd("p", [arg("o", "o", "opt"), arg("f", "f", "flag", action="SetTrue")]))
    add("opt-append", cmd("p", [arg("o", "o", "opt", action="Append"), arg("f", "f", action="SetTrue")]))
    for lab, n in [("0", (0, 0)), ("0..=1", (0, 1)), ("2", (2, 2)), ("1..=2", (1, 2)), ("1..", (1, None)), ("..", (0, None))]:
        add("opt-num_args " + lab, cmd("p", [arg("o", "o", "opt", num=n), arg("f", "f", "flag", action="SetTrue"), arg("p1")]))
    add("opt-0..=1 default_missing", cmd("p", [arg("o", "o", "opt", num=(0, 1), missing=["m"]), arg("p1")]))
    add("pos-single", cmd("p", [arg("p1"), arg("p2"), arg("f", "f", action="SetTrue")]))
    add("pos-multi", cmd("p", [arg("p1", num=(1, None)), arg("f", "f", "flag", action="SetTrue"), arg("o", "o", "opt")]))
    add("pos-required-multi", cmd("p", [arg("p1", required=True), arg("p2", num=(0, None))]))
    add("pos-last", cmd("p", [arg("p1"), arg("rest", num=(1, None), last=True), arg("f", "f", action="SetTrue")]))
    add("pos-multi-then-last", cmd("p", [arg("first", num=(1, None)), arg("rest", num=(1, None), last=True), arg("f", "f", action="SetTrue")]))
    add("negative-numbers", cmd("p", [arg("nums", num=(1, None), negnum=True), arg("v", "v", action="SetTrue"),
                                      arg("offs", "o", "offsets", num=(1, None), negnum=True)]), extra=["-1", "-2", "1"])
    # Arg::value_names: more than one name fixes the number of values unless num_args says otherwise
    add("value-names", cmd("p", [arg("pair", "p", "pair", valnames=2), arg("one", "o", "one", valnames=1), arg("tri", "t", "tri", valnames=2, num=(1, 3)),
                                 arg("f", "f", action="SetTrue")]), extra=["--pair=a"])
    add("value-names-positional", cmd("p", [arg("pt", valnames=2), arg("f", "f", action="SetTrue")]))
    # actions and value counts chosen independently of each other
    add("pos-append-single", cmd("p", [arg("p1", action="Append", num=(1, 1)), arg("f", "f", action="SetTrue")]))
    add("pos-append-pair", cmd("p", [arg("p1", action="Append", num=(2, 2)), arg("f", "f", action="SetTrue")]))
    add("opt-unbounded-default-action", cmd("p", [arg("o", "o", "opt", num=(1, None)), arg("q", "q", "qq", num=(0, None)), arg("f", "f", action="SetTrue")]))
    add("opt-append-fixed", cmd("p", [arg("o", "o", "opt", action="Append", num=(2, 2)), arg("s", "s", "set", num=(2, 2)), arg("p1")]))
    add("pos-zero-or-one-then-last", cmd("p", [arg("p1", num=(0, 1)), arg("p2", last=True), arg("f", "f", action="SetTrue")]))
    add("pos-zero-or-one-last", cmd("p", [arg("p0"), arg("p1", num=(0, 1)), arg("o", "o", "opt", num=(0, 1))]))
    add("pos-low-index-multi-hyphen", cmd("p", [arg("files", num=(1, None), required=True, hyphen=True), arg("target", required=True), arg("f", "f", action="SetTrue")]),
        extra=["-1", "-x"])
    add("pos-low-index-multi-negnum", cmd("p", [arg("files", num=(1, None), required=True, negnum=True), arg("target", required=True), arg("f", "f", action="SetTrue")]),
        extra=["-1", "-2", "-x"])
    add("cmd-allow-hyphen-values", cmd("p", [arg("o", "o", "opt"), arg("f", "f", action="SetTrue"), arg("p1", num=(0, None))], allow_hyphen_values=True))
    add("cmd-allow-negative-numbers", cmd("p", [arg("o", "o", "opt"), arg("f", "f", action="SetTrue"), arg("p1", num=(0, None))], allow_negative_numbers=True),
        extra=["-1", "-2.5"])
    add("cmd-trailing-var-arg", cmd("p", [arg("p1"), arg("rest", num=(0, None)), arg("f", "f", action="SetTrue")], trailing_var_arg=True))
    add("delim-multibyte", cmd("p", [arg("o", "o", "opt", delim="\u3001", action="Append"), arg("p1", num=(0, None), delim="\U0001F600")]),
        extra=["a\u3001b", "--opt=x\u3001y", "c\U0001F600d", "\u3001"])
    add("missing-delim-dont-trailing", cmd("p", [arg("o", "o", "opt", num=(0, None), delim=",", missing=["a,b"]), arg("p1", num=(0, None), delim=",")],
                                           dont_delimit_trailing_values=True), extra=["c,d", "--opt=c,d"])
    add("delim-multi-escape", cmd("p", [arg("p1", num=(1, None), delim=","), arg("f", "f", action="SetTrue")]), extra=["a,b", "c,d"])
    add("pos-tva", cmd("p", [arg("p1"), arg("rest", num=(1, None), tva=True), arg("f", "f", "flag", action="SetTrue")]))
    add("pos-low-index-multi", cmd("p", [arg("files", num=(1, None), required=True), arg("target", required=True), arg("f", "f", action="SetTrue")]))
    add("pos-allow-missing", cmd("p", [arg("p1"), arg("p2", required=True), arg("f", "f", action="SetTrue")], allow_missing_positional=True))
    add("delim", cmd("p", [arg("o", "o", "opt", delim=",", action="Append"), arg("p1", num=(0, None), delim=",")]))
    add("delim-dont-trailing", cmd("p", [arg("o", "o", "opt", delim=","), arg("p1", num=(0, None), delim=",")],
                                   dont_delimit_trailing_values=True), extra=["c,d"])
    add("terminator", cmd("p", [arg("o", "o", "opt", num=(1, None), term=";"), arg("p1"), arg("f", "f", action="SetTrue")]))
    add("pos-terminator", cmd("p", [arg("p1", num=(1, None), term=";"), arg("p2")]))
    add("require_equals", cmd("p", [arg("o", "o", "opt", req_eq=True), arg("p1")]))
    add("require_equals-min0", cmd("p", [arg("o", "o", "opt", req_eq=True, num=(0, 1), missing=["m"]), arg("f", "f", action="SetTrue"), arg("p1")]))
    add("hyphen-opt", cmd("p", [arg("o", "o", "opt", hyphen=True), arg("f", "f", "flag", action="SetTrue"), arg("p1")]))
    add("hyphen-opt-multi", cmd("p", [arg("o", "o", "opt", hyphen=True, num=(1, 2)), arg("f", "f", "flag", action="SetTrue")]))
    add("hyphen-pos", cmd("p", [arg("f", "f", "flag", action="SetTrue"), arg("p1", hyphen=True, num=(0, None))]))
    add("hyphen-pos+opt", cmd("p", [arg("o", "o", "opt"), arg("m", "m", "multi", num=(1, 2)), arg("p1", hyphen=True, num=(0, None))]), extra=["--zz=1"])
    add("negnum-pos", cmd("p", [arg("f", "f", action="SetTrue"), arg("n", "n", "num", negnum=True), arg("p1", negnum=True)]), extra=["-1.5", "-1e3"])
    add("aliases", cmd("p", [arg("o", "o", "opt", aliases=["alt", "other"]), arg("f", "f", "flag", aliases=["fl"], action="SetTrue")]))
    add("visible-alias-option", cmd("p", [arg("mode", "m", "mode", valiases=["kind"], aliases=["md"]), arg("verbose", None, "verbose", valiases=["chatty"], action="SetTrue")],
                                    subs=[cmd("build", [arg("release", None, "release", action="SetTrue")])]),
        extra=["--kind", "build", "--kind=build", "--chatty", "--md", "--ki"])
    add("short-aliases", cmd("p", [arg("mode", "m", "mode", saliases=["k"]), arg("verbose", "v", "verbose", saliases=["c"], action="SetTrue"),
                                   arg("only", None, "only", saliases=["q"], action="SetTrue")],
                             subs=[cmd("build", [arg("release", "r", action="SetTrue")])]),
        extra=["-k", "-kx", "-k=x", "-ck", "-c", "-q", "build", "-vc"])
    add("hidden-alias-vs-visible", cmd("p", [arg("colour", "c", "colour", aliases=["output-colour"], action="SetTrue"), arg("output", "o", "output")]),
        extra=["--out", "--output-c", "--col"])
    add("infer-long", cmd("p", [arg("v1", long="verbose", action="SetTrue"), arg("v2", long="version2", action="SetTrue"),
                                arg("o", "o", "output", aliases=["out-file"])], infer_long_args=True),
        extra=["--ver", "--verb", "--o", "--out", "--out-f", "--output=v"])
    add("int-values", cmd("p", [arg("n", "n", "num", vp=vp_int(1, 5)), arg("p1", vp=vp_int(0, 9), num=(0, None))]), extra=["0", "6", "x", "+3"])
    add("possible-values", cmd("p", [arg("m", "m", "mode", vp=vp_possible("fast", "slow")), arg("p1", vp=vp_possible("x", "y"))]),
        extra=["fast", "FAST", "x"])
    add("possible-ignore-case", cmd("p", [arg("m", "m", "mode", vp=vp_possible("fast", "slow"), ignore_case=True)]), extra=["fast", "FAST", "Slow"])
    add("version", cmd("p", [arg("f", "f", action="SetTrue")], version=True))
    add("no-help-flag", cmd("p", [arg("f", "f", "flag", action="SetTrue"), arg("p1")], disable_help_flag=True))
    add("arg-required-else-help", cmd("p", [arg("f", "f", action="SetTrue"), arg("o", "o", "opt", defaults=["d"])], arg_required_else_help=True))
    add("short-opt-cluster", cmd("p", [arg("a", "a", action="SetTrue"), arg("b", "b", action="Count"), arg("o", "o")]),
        extra=["-abo", "-abov", "-ab=v", "-oab", "-aob", "-bbb"])
    add("multibyte-short", cmd("p", [arg("e", "é", action="SetTrue"), arg("o", "o")]), extra=["-éo", "-oé", "-é", [45, 0xC3]])
    return D


# ---------------------------------------------------------------- F-act
def f_act():
    D = []
    for action in ["Set", "Append", "SetTrue", "SetFalse", "Count"]:
        takes = action in ("Set", "Append")
        for mode in ["plain", "override_self_setting", "overrides_self", "x_overrides_a", "a_overrides_x", "mutual"]:
            a = arg("a", "a", "aa", action=action)
            x = arg("x", "x", "xx", action="Set" if takes else "SetTrue")
            s = {}
            if mode == "override_self_setting":
                s["args_override_self"] = True
            if mode == "overrides_self":
                a["overrides"] = ["a"]
            if mode in ("x_overrides_a", "mutual"):
                x["overrides"] = ["a"]
            if mode in ("a_overrides_x", "mutual"):
                a["overrides"] = a["overrides"] + ["x"]
            c = cmd("p", [a, x, arg("f", "f", action="SetTrue")], **s)
            D.append(with_alpha(c, "act", "%s/%s" % (action, mode), with_noise=False))
        if takes:
            a = arg("a", "a", "aa", action=action, num=(1, 2))
            D.append(with_alpha(cmd("p", [a, arg("f", "f", action="SetTrue")], args_override_self=True), "act",
                                "%s/multi-values/override_self" % action, with_noise=False))
            a = arg("a", "a", "aa", action=action, num=(0, 1), missing=["m"])
            D.append(with_alpha(cmd("p", [a, arg("p1")]), "act", "%s/optional-value" % action, with_noise=False))
    # occurrences with zero values must keep their boundaries
    D.append(with_alpha(cmd("p", [arg("a", "a", "aa", action="Append", num=(0, None)), arg("f", "f", action="SetTrue")]), "act",
                        "Append/zero-or-more-no-missing", with_noise=False))
    D.append(with_alpha(cmd("p", [arg("a", "a", "aa", action="Append", num=(0, 1)), arg("p1")]), "act", "Append/optional-no-missing", with_noise=False))
    # two one-way overriders of the same target
    D.append(with_alpha(cmd("p", [arg("a", "a", "aa", action="SetTrue", overrides=["c"]), arg("b", "b", "bb", action="SetTrue", overrides=["c"]),
                                  arg("c", "c", "cc", action="SetTrue")]), "act", "two-overriders-of-c", with_noise=False))
    # positional with Append (default for unbounded positional) and explicit Set
    D.append(with_alpha(cmd("p", [arg("p1", num=(0, None)), arg("o", "o", action="Append")]), "act", "pos-append", with_noise=False))
    return D


# ---------------------------------------------------------------- F-src
def f_src():
    D = []
    n = 0
    for action, num in [("Set", None), ("Set", (0, 1)), ("Append", None), ("SetTrue", None), ("Count", None)]:
        for defaults in [(), ("d",)]:
            for missing in [(), ("m",)]:
                for envv in [None, "e", "bad"]:
                    for dif in [None, "present", "equals", "nodef"]:
                        if action in ("SetTrue", "Count") and (missing or (defaults and action == "Count")):
                            continue
                        if action in ("SetTrue", "Count"):
                            dv = ("true",) if defaults and action == "SetTrue" else ()
                            ev = {"e": "true" if action == "SetTrue" else "3", "bad": "zzz", None: None}[envv]
                        else:
                            dv, ev = defaults, {"e": "e", "bad": "9", None: None}[envv]
                        vp = vp_int(0, 5) if (action in ("Set", "Append") and envv == "bad") else None
                        if vp:
                            dv = tuple("1" for _ in dv)
                            missing_ = tuple("2" for _ in missing)
                        else:
                            missing_ = missing
                        difs = []
                        if dif == "present":
                            difs = [("t", None, "1" if vp else ("true" if action == "SetTrue" else ("2" if action == "Count" else "i")))]
                        elif dif == "equals":
                            difs = [("u", "k", "1" if vp else ("true" if action == "SetTrue" else ("2" if action == "Count" else "j"))),
                                    ("t", None, "0" if vp else ("false" if action == "SetTrue" else ("1" if action == "Count" else "i")))]
                        elif dif == "nodef":
                            difs = [("t", None, None)]
                        a = arg("a", "a", "aa", action=action, num=num, defaults=dv, missing=missing_, env=ev, default_ifs=difs, vp=vp)
                        c = cmd("p", [a, arg("t", "t", action="SetTrue"), arg("u", "u", "uu"), arg("r", "r", action="SetTrue", requires=["a"]),
                                      arg("x", "x", action="SetTrue", conflicts=["a"])])
                        n += 1
                        d = with_alpha(c, "src", "%s num=%s def=%s miss=%s env=%s dif=%s" % (action, num, dv, missing_, ev, dif),
                                       with_noise=False, extra=["k"], values=("v",))
                        D.append(d)
    return D


# ---------------------------------------------------------------- F-rel
def f_rel(k_edges=2, sample=None, seed=1):
    """all relation graphs with <= k_edges edges over three flags a, b, c (+ option o) and groups g, h"""
    edges = []
    ids = ["a", "b", "c"]
    for x in ids:
        for y in ids:
            if x != y:
                edges += [("conflicts", x, y), ("requires", x, y), ("overrides", x, y), ("req_unless", x, y),
                          ("req_unless_all", x, y)]
        edges += [("required", x), ("exclusive", x), ("in_g", x), ("in_h", x), ("requires_if", x, "o"),
                  ("req_if_eq", x, "o"), ("conflicts", x, "g"), ("requires", x, "g")]
    edges += [("g_required",), ("g_multiple",), ("g_requires", "c"), ("g_conflicts", "c"), ("g_conflicts", "h"),
              ("h_required",), ("neg_reqs",)]
    combos = []
    for r in range(0, k_edges + 1):
        combos += list(itertools.combinations(edges, r))
    if sample and len(combos) > sample:
        rnd = random.Random(seed)
        keep0 = [c for c in combos if len(c) <= 1]
        rest = [c for c in combos if len(c) > 1]
        combos = keep0 + rnd.sample(rest, sample - len(keep0))
    D = []
    for combo in combos:
        A = {i: arg(i, i, i * 2, action="SetTrue") for i in ids}
        A["o"] = arg("o", "o", "oo")
        G = {"g": group("g", []), "h": group("h", [])}
        s = {}
        used_g = set()
        for e in combo:
            if e[0] in ("conflicts", "requires", "overrides", "req_unless", "req_unless_all"):
                A[e[1]][e[0]] = A[e[1]][e[0]] + [e[2]]
                if e[2] in G:
                    used_g.add(e[2])
            elif e[0] in ("required", "exclusive"):
                A[e[1]][e[0]] = True
            elif e[0] in ("in_g", "in_h"):
                G[e[0][-1]]["args"].append(e[1])
                used_g.add(e[0][-1])
            elif e[0] == "requires_if":
                A[e[2]]["requires_ifs"].append({"val": b("k"), "id": e[1]})
            elif e[0] == "req_if_eq":
                A[e[1]]["req_if_eq"].append({"id": e[2], "val": b("k")})
            elif e[0] in ("g_required", "h_required"):
                G[e[0][0]]["required"] = True
                used_g.add(e[0][0])
            elif e[0] == "g_multiple":
                G["g"]["multiple"] = True
                used_g.add("g")
            elif e[0] == "g_requires":
                G["g"]["requires"].append(e[1])
                used_g.add("g")
            elif e[0] == "g_conflicts":
                G["g"]["conflicts"].append(e[1])
                used_g.add("g")
                if e[1] in G:
                    used_g.add(e[1])
            elif e[0] == "neg_reqs":
                s["subcommand_negates_reqs"] = True
        groups = [G[x] for x in ("g", "h") if x in used_g]
        if any(not g["args"] for g in groups):
            # a group needs at least one member to pass the gate; give it `c` (or `b`)
            for g in groups:
                if not g["args"]:
                    g["args"].append("c" if g["id"] == "g" else "b")
        subs = [cmd("s", [arg("q", "q", action="SetTrue")])] if "subcommand_negates_reqs" in s else []
        c = cmd("p", [A["a"], A["b"], A["c"], A["o"]], groups=groups, subs=subs, **s)
        al = [b("-a"), b("-b"), b("-c"), b("--aa"), b("-ab"), b("-ok"), b("-o"), b("v")]
        if subs:
            al.append(b("s"))
        D.append({"fam": "rel", "label": "+".join("/".join(e) for e in combo) or "none", "cmd": c, "alphabet": al, "env": {}})
    return D


# ---------------------------------------------------------------- F-tree
def f_relx():
    """curated relation definitions whose triggers need values / several occurrences"""
    D = []

    def add(label, c, **kw):
        D.append(with_alpha(c, "relx", label, with_noise=False, **kw))
    add("required_if_eq on Append trigger", cmd("p", [arg("m", "m", "mode", action="Append"), arg("x", "x", "xx", req_if_eq=[("m", "special")])]),
        extra=["special", "other", "--mode=special", "--mode=other"], values=())
    add("requires_if on Append trigger", cmd("p", [arg("m", "m", "mode", action="Append", requires_ifs=[("special", "x")]), arg("x", "x", "xx", action="SetTrue")]),
        extra=["--mode=special", "--mode=other"], values=())
    add("required_if_eq any+all on one arg", cmd("p", [arg("a", "a", "aa"), arg("b", "b", "bb"), arg("c", "c", "cc"),
                                                       arg("x", "x", "xx", action="SetTrue", req_if_eq=[("a", "k")], req_if_eq_all=[("b", "k"), ("c", "k")])]),
        extra=["--aa=k", "--bb=k", "--cc=k", "--aa=z", "--bb=z"], values=())
    add("required_if_eq ignore_case", cmd("p", [arg("m", "m", "mode", ignore_case=True), arg("x", "x", "xx", action="SetTrue", req_if_eq=[("m", "special")])]),
        extra=["--mode=SPECIAL", "--mode=special", "--mode=other"], values=())
    add("required_if_eq ignore_case on OsString", cmd("p", [arg("m", "m", "mode", ignore_case=True, vp=vp_kind("os")),
                                                            arg("x", "x", "xx", action="SetTrue", req_if_eq=[("m", "special")]),
                                                            arg("y", "y", "yy", action="SetTrue", requires_ifs=[])]),
        extra=["--mode=SPECIAL", "--mode=special", b"--mode=s\xffp", b"--mode=\xffspecial", "--mode=other"], values=())
    add("required_unless all/any", cmd("p", [arg("a", "a", action="SetTrue"), arg("b", "b", action="SetTrue"),
                                             arg("x", "x", action="SetTrue", req_unless_all=["a", "b"]), arg("y", "y", action="SetTrue", req_unless=["a", "b"])]), values=())
    add("group requires + conflicts via env", cmd("p", [arg("a", "a", "aa", env="e"), arg("b", "b", "bb", action="SetTrue"), arg("c", "c", "cc", action="SetTrue", conflicts=["g"]),
                                                        arg("d", "d", action="SetTrue")],
                                                  groups=[group("g", ["a"], requires=["b"])]), values=())
    # values that came from defaults never trigger exclusivity, conflicts, requirements or group presence
    add("exclusive + default", cmd("p", [arg("e", "e", "ee", exclusive=True, defaults=["d"]), arg("a", "a", action="SetTrue"), arg("b", "b", action="SetTrue"),
                                         arg("o", "o", "oo")]), values=("v",))
    add("conflicts/requires + default", cmd("p", [arg("x", "x", "xx", defaults=["d"], conflicts=["a"], requires=["b"]), arg("a", "a", action="SetTrue"),
                                                  arg("b", "b", action="SetTrue")]), values=("v",))
    add("group member + default", cmd("p", [arg("x", "x", "xx", defaults=["d"]), arg("a", "a", action="SetTrue", conflicts=["g"]), arg("b", "b", action="SetTrue"),
                                            arg("y", "y", action="SetTrue", default_ifs=[])],
                                      groups=[group("g", ["x"], requires=["b"])]), values=("v",))
    add("group contains itself", cmd("p", [arg("a", "a", action="SetTrue"), arg("b", "b", action="SetTrue")],
                                     groups=[group("g", ["a", "b", "g"], required=True)]), values=())
    add("groups contain each other", cmd("p", [arg("a", "a", action="SetTrue"), arg("b", "b", action="SetTrue")],
                                         groups=[group("g1", ["a", "g2"]), group("g2", ["b", "g1"])]), values=())
    # an argument filled from its environment variable is no occurrence: it neither overrides nor is overridden
    add("env + overrides", cmd("p", [arg("a", "a", "aa", env="e", overrides=["b"]), arg("b", "b", "bb", defaults=["d"]), arg("c", "c", "cc", env="true", action="SetTrue")]),
        values=("v",))
    add("non-utf8 env", cmd("p", [arg("o", "o", "os", env=b"\xffdir", vp=vp_kind("os"), defaults=["d"]), arg("s", "s", "str", env=b"x\xff", defaults=["d"]),
                                  arg("f", "f", action="SetTrue")]), values=("v",))
    add("list relations", cmd("p", [arg("a", "a", "aa", action="SetTrue", overrides=["a", "b", "c"]), arg("b", "b", action="SetTrue", conflicts=["c", "d"]),
                                    arg("c", "c", action="SetTrue"), arg("d", "d", action="SetTrue", req_unless=["a", "b"]),
                                    arg("e", "e", "ee", req_if_eq=[("a", "true"), ("b", "true")], requires_ifs=[("1", "c"), ("2", "d")])]), values=("1", "2"))
    add("required group of two", cmd("p", [arg("a", "a", action="SetTrue"), arg("b", "b", action="SetTrue"), arg("c", "c", action="SetTrue")],
                                     groups=[group("g", ["a", "b"], required=True, multiple=True)]), values=())
    add("membership through Arg::group", cmd("p", [arg("a", "a", action="SetTrue"), arg("b", "b", action="SetTrue"), arg("c", "c", action="SetTrue", conflicts=["g"]),
                                                   arg("d", "d", action="SetTrue"), arg("e", "e", action="SetTrue")],
                                             groups=[group("g", ["a"], via_arg=["b"], requires=["d"]), group("h", [], via_arg=["d", "e"], implicit=True)]), values=())
    add("transitive requires", cmd("p", [arg("a", "a", action="SetTrue", requires=["b"]), arg("b", "b", action="SetTrue", requires=["c"]),
                                         arg("c", "c", action="SetTrue")]), values=())
    add("exclusive + required", cmd("p", [arg("e", "e", action="SetTrue", exclusive=True), arg("r", "r", required=True), arg("f", "f", action="SetTrue")]), values=("v",))
    add("nested groups", cmd("p", [arg("a", "a", action="SetTrue"), arg("b", "b", action="SetTrue"), arg("c", "c", action="SetTrue")],
                             groups=[group("inner", ["a", "b"]), group("outer", ["inner", "c"], required=True)]), values=())
    # an override removes one member of a multiple group while another member stays: the group is still present
    add("multiple group, one member overridden", cmd("p", [arg("a", "a", action="SetTrue"), arg("c", "c", action="SetTrue"), arg("b", "b", action="SetTrue", overrides=["a"]),
                                                           arg("x", "x", action="SetTrue"), arg("d", "d", action="SetTrue", conflicts=["g"])],
                                                     groups=[group("g", ["a", "c"], multiple=True, requires=["x"])]), values=())
    # a conditional default looks at what the matcher holds: the default of an earlier argument counts, the comparison is exact
    # (the condition argument's ignore_case is for its own value parser and for requires/required rules)
    add("default_value_if on a defaulted, ignore_case condition", cmd("p", [arg("u", "u", "uu", defaults=["k"], ignore_case=True),
                                                                            arg("a", "a", "aa", defaults=["d"], default_ifs=[("u", "k", "j")]),
                                                                            arg("t", "t", action="SetTrue", default_ifs=[])]),
        extra=["--uu=K", "--uu=k", "--uu=z"], values=())
    return D


def f_tree():
    D = []

    def add(label, c, **kw):
        D.append(with_alpha(c, "tree", label, max_tokens=30, **kw))
    g = arg("g", "g", "gg", glob=True, action="SetTrue")
    gv = arg("gv", "G", "gval", glob=True)
    gd = arg("gd", "D", "gdef", glob=True, defaults=["d"])
    leaf = cmd("leaf", [arg("l", "l", action="SetTrue"), arg("lp")])
    mid = cmd("mid", [arg("m", "m", "mm", action="SetTrue")], subs=[leaf], aliases=["md"])
    add("globals-flag", cmd("p", [g, arg("t", "t", action="SetTrue")], subs=[mid, cmd("other", [arg("o", "o")])]))
    add("globals-value", cmd("p", [gv], subs=[mid]))
    add("globals-default", cmd("p", [gd], subs=[mid]))
    mid2 = cmd("mid", [arg("m", "m", action="SetTrue"), arg("g2", "x", "g2", glob=True)], subs=[leaf])
    add("global-defined-at-level-2", cmd("p", [arg("t", "t", action="SetTrue")], subs=[mid2]))
    fs = cmd("sync", [arg("u", "u", action="SetTrue"), arg("y", "y", action="SetTrue"), arg("pk", num=(0, None))],
             short_flag="S", long_flag="sync", aliases=["sy"])
    fq = cmd("query", [arg("i", "i", action="SetTrue"), arg("s", "s")], short_flag="Q", long_flag="query")
    add("flag-subcommands", cmd("pac", [arg("v", "v", action="Count")], subs=[fs, fq]),
        extra=["-Syu", "-Sy", "-vS", "-vSy", "-Qi", "-Qs", "-SQ", "-Su", b"-S\xff", b"-Sy\xff", b"-vS\xe9"])
    fs2 = cmd("sync", [arg("u", "u", action="SetTrue")], short_flag="S",
              subs=[cmd("inner", [arg("y", "y", action="SetTrue")], short_flag="Q")])
    add("nested-flag-subcommands", cmd("pac", [arg("v", "v", action="SetTrue")], subs=[fs2]), extra=["-SQy", "-Su", "-SuQ", "-vSQ", "-Qy", "-SQ", b"-SQ\xe9", b"-S\xff"])
    add("external", cmd("p", [arg("f", "f", action="SetTrue")], subs=[cmd("known", [arg("k", "k", action="SetTrue")])],
                        allow_external_subcommands=True), extra=["ext", "--flag", "-x"])
    add("subcommand-required", cmd("p", [arg("f", "f", action="SetTrue")], subs=[leaf], subcommand_required=True))
    add("subcmd-else-help", cmd("p", [arg("f", "f", action="SetTrue")], subs=[leaf], arg_required_else_help=True))
    add("args-conflict-subcommands", cmd("p", [arg("f", "f", "ff", action="SetTrue"), arg("p1")], subs=[leaf, cmd("two", long_flag="two")],
                                         args_conflicts_with_subcommands=True))
    add("args-conflict-subcommands-group", cmd("p", [arg("f", "f", "ff", action="SetTrue")], groups=[group("grp", ["f"])],
                                               subs=[cmd("two", long_flag="two", short_flag="T")],
                                               args_conflicts_with_subcommands=True))
    add("precedence", cmd("p", [arg("o", "o", "opt", num=(1, None)), arg("p1", num=(0, None))], subs=[leaf],
                          subcommand_precedence_over_arg=True))
    add("no-precedence", cmd("p", [arg("o", "o", "opt", num=(1, None)), arg("p1", num=(0, None))], subs=[leaf]))
    add("negates-reqs", cmd("p", [arg("r", "r", required=True)], subs=[leaf], subcommand_negates_reqs=True))
    add("infer-subcommands", cmd("p", [arg("f", "f", action="SetTrue")],
                                 subs=[cmd("test", [arg("t", "t", action="SetTrue")]), cmd("temp"), cmd("other", aliases=["oth"])],
                                 infer_subcommands=True), extra=["te", "tes", "o", "ot", "t"])
    add("infer-long-flag-subcommands", cmd("p", [arg("f", "f", "foo", action="SetTrue")],
                                           subs=[cmd("sync", long_flag="sync"), cmd("status", long_flag="status")],
                                           infer_subcommands=True, infer_long_args=True), extra=["--sy", "--s", "--st", "--fo"])
    add("help-subcommand", cmd("p", [arg("f", "f", action="SetTrue")], subs=[mid]), extra=["help", "mid", "leaf", "nope"])
    fa = cmd("sync", [arg("u", "u", action="SetTrue")], short_flag="S", long_flag="sync", long_flag_aliases=["update", "upgrade"],
             short_flag_aliases=["U"])
    fb = cmd("query", [arg("i", "i", action="SetTrue")], long_flag="query", long_flag_aliases=["ask"])
    add("flag-subcommand-aliases", cmd("pac", [arg("v", "v", action="SetTrue")], subs=[fa, fb]), extra=["--update", "--ask", "-U", "-Uu", "--upd"])
    add("flag-subcommand-aliases-infer", cmd("pac", [arg("v", "v", action="SetTrue")], subs=[fa, fb], infer_subcommands=True),
        extra=["--update", "--upd", "--up", "--u", "--as", "--sy", "-U", "--q"])
    add("propagate-version", cmd("p", [], subs=[mid], version=True, propagate_version=True), extra=["--version", "-V"])
    add("ignore-errors-tree", cmd("p", [arg("f", "f", action="SetTrue"), arg("o", "o", defaults=["d"])], subs=[mid], ignore_errors=True))
    # what error messages suggest: the footer target under every help configuration, did-you-mean for near misses
    add("no-help-anywhere", cmd("p", [arg("f", "f", "flag", action="SetTrue")], subs=[leaf], disable_help_flag=True, disable_help_subcommand=True),
        extra=["help", "--help", "--flg", "laef"])
    add("help-subcommand-only", cmd("p", [arg("f", "f", "flag", action="SetTrue")], subs=[mid], disable_help_flag=True),
        extra=["help", "--help", "--flg", "mdi", "--mn"])
    add("user-help-flag", cmd("p", [arg("assist", "a", "assist", action="Help"), arg("f", "f", "flag", action="SetTrue")], subs=[leaf],
                              disable_help_flag=True, disable_help_subcommand=True), extra=["--assist", "--asist", "--help", "leav"])
    add("near-misses", cmd("p", [arg("color", None, "color", vp=vp_possible("always", "never")), arg("verbose", None, "verbose", action="SetTrue")],
                           subs=[cmd("build", [arg("release", None, "release", action="SetTrue")]), cmd("check", aliases=["chk"])]),
        extra=["--colour", "--color=alwys", "--verbos", "--releas", "biuld", "chek", "--", "build", "--color=never"])
    # help rendered inside a parse at a narrow terminal (the rendering must not panic whatever the width)
    narrow_leaf = cmd("a-rather-long-subcommand-name", [arg("l", "l", "a-rather-long-option-name", action="SetTrue")], about="about text", term_width=9)
    add("narrow-terminal", cmd("p", [arg("f", "f", "flag", action="SetTrue", help="some help")], subs=[narrow_leaf], term_width=9, arg_required_else_help=True),
        extra=["--help", "-h", "help", "a-rather-long-subcommand-name"])
    # a flag subcommand that has long-flag aliases but no primary long flag
    add("flag-subcommand-alias-only", cmd("pac", [arg("v", "v", action="SetTrue")],
                                          subs=[cmd("sync", [arg("u", "u", action="SetTrue")], short_flag="S",
                                                    subs=[cmd("query", [arg("i", "i", action="SetTrue")], long_flag_aliases=["query", "ask"])]),
                                                cmd("list", long_flag_aliases=["ls"])]),
        extra=["--query", "--ask", "--ls", "-S", "-Su", "-i"])
    # inference reaching a subcommand through an alias that is no prefix of its name
    add("infer-subcommand-alias", cmd("p", [arg("f", "f", action="SetTrue")],
                                      subs=[cmd("remove", [arg("x", "x", "force", action="SetTrue")], aliases=["delete"]), cmd("rename")],
                                      infer_subcommands=True), extra=["delete", "del", "d", "rem", "re", "--force", "-x"])
    # global settings reach every depth
    deep = cmd("deep", [arg("vals", num=(0, None), delim=","), arg("long-name", None, "long-name", action="SetTrue")], subs=[cmd("deeper", [arg("w", "w", "wide", action="SetTrue")])])
    add("global-settings-depth-2", cmd("p", [arg("t", "t", action="SetTrue")], subs=[cmd("mid", [arg("m", "m", "mm", action="SetTrue")], subs=[deep])],
                                       dont_delimit_trailing_values=True, infer_long_args=True, infer_subcommands=True, disable_help_subcommand=True),
        extra=["mid", "deep", "a,b", "--long", "--", "dee", "deeper", "--wi", "help"])
    # the low-index look-ahead also stops at a subcommand name
    add("low-index-multi-with-subs", cmd("p", [arg("files", num=(1, None), required=True), arg("dest", required=True), arg("f", "f", action="SetTrue")], subs=[leaf]),
        extra=["leaf", "a", "b"])
    # ... also when both levels are named inside one group of short flags (so that `--` and a tail still fit the quick bound)
    deepf = cmd("deep", [arg("vals", num=(0, None), delim=","), arg("w", "w", action="SetTrue")], short_flag="D")
    add("global-settings-depth-2-flags", cmd("p", [arg("t", "t", action="SetTrue")], subs=[cmd("mid", [arg("m", "m", action="SetTrue")], subs=[deepf], short_flag="M")],
                                             dont_delimit_trailing_values=True), extra=["-MD", "-M", "-D", "a,b", "-MDw", "-tMD"])
    # hidden subcommands, with and without an about text
    add("hidden-subcommands", cmd("p", [arg("f", "f", action="SetTrue")],
                                  subs=[cmd("vis", [arg("v", "v", action="SetTrue")], subs=[cmd("inner"), cmd("ihid", hide=True)]), cmd("hid", hide=True),
                                        cmd("hidabout", hide=True, about="about")]), extra=["vis", "hid", "hidabout", "h", "help", "inner", "ihid"])
    # a hand-written subcommand called `help` (the generated one disabled) is an ordinary subcommand: globals reach it
    add("user-defined-help-subcommand", cmd("p", [arg("g", "g", "gg", glob=True, action="SetTrue")],
                                            subs=[cmd("help", [arg("x", "x", action="SetTrue"), arg("topic")]), cmd("run", [arg("r", "r", action="SetTrue")])],
                                            disable_help_subcommand=True), extra=["help", "run", "-g", "--gg", "-x", "topic"])
    # what becomes of argv[0]
    applets = [cmd("true"), cmd("ls", [arg("l", "l", "long", action="SetTrue"), arg("path", num=(0, None))], aliases=["dir"]),
               cmd("box", subs=[cmd("inner", [arg("i", "i", action="SetTrue")])])]
    add("multicall", cmd("busybox", subs=applets, multicall=True),
        extra=["ls", "/bin/ls", "ls.exe", "a/b/true", ".ls", "dir/", "busybox", b"\xffls", "", "-l", "--long", "box", "inner", "-i", "help", "--help"])
    add("multicall-self-applet", cmd("hostname", subs=[cmd("hostname", [arg("f", "f", action="SetTrue")]), cmd("dnsdomainname")], multicall=True),
        extra=["hostname", "dnsdomainname", "./hostname", "-f", "x"])
    add("no-binary-name", cmd("p", [arg("f", "f", "flag", action="SetTrue"), arg("p1", num=(0, None))], subs=[leaf], no_binary_name=True),
        extra=["p", "leaf", "-f"])
    add("sub-with-positional-parent", cmd("p", [arg("p1"), arg("f", "f", action="SetTrue")], subs=[leaf]))
    return D


def with_ignore_errors(defs):
    out = []
    for d in defs:
        d2 = json.loads(json.dumps(d))
        d2["cmd"]["s"]["ignore_errors"] = True
        d2["label"] += " +ignore_errors"
        out.append(d2)
    return out


def set_env_names(defs):
    """give every env-carrying argument a unique variable name; the value is in the definition"""
    n = 0
    for d in defs:
        env = {}

        def walk(c):
            nonlocal n
            for a in c["args"]:
                if a["has_env"]:
                    n += 1
                    a["env_name"] = "VERIF_ENV_%d" % n
                    env[a["env_name"]] = a["env"]
                else:
                    a["env_name"] = ""
            for s in c["subs"]:
                walk(s)
        walk(d["cmd"])
        d["env"] = env
    return defs


FAMILIES = {"core": f_core, "act": f_act, "src": f_src, "tree": f_tree, "relx": f_relx}


def write(defs, path):
    set_env_names(defs)
    with open(path, "w") as f:
        for i, d in enumerate(defs):
            d["i"] = i + 1
            # TLC cannot read JSON objects with varying keys as one record type: env map goes to the harness only
            f.write(json.dumps(d) + "\n")


if __name__ == "__main__":
    import sys
    for name, fn in FAMILIES.items():
        print(name, len(fn()))
    print("rel2", len(f_rel(2)), "rel1", len(f_rel(1)))


# ---------------------------------------------------------------- F-spell (C08)
def elements_for(c):
    """intended-invocation elements with all their documented equivalent spellings (first = canonical)"""
    els = []
    infer = c["s"]["infer_long_args"]
    nonpos = [a for a in c["args"] if a["short"] or a["long"]]
    longs = [a["long"] for a in nonpos if a["long"]] + [al for a in nonpos for al in a["aliases"]]

    def uniq_prefixes(name):
        out = []
        for k in range(1, len(name)):
            p = name[:k]
            if sum(1 for l in longs if l[:k] == p) == 1 and p not in longs:
                out.append(p)
        return out[:2] + out[-1:] if len(out) > 3 else out
    flags, opts = [], []
    for a in nonpos:
        takes = a["action"] in ("", "Set", "Append") and not (a["nset"] and a["nmax"] == 0)
        if takes and (a["req_eq"] or (a["nset"] and (a["nmin"], a["nmax"]) != (1, 1))):
            continue
        names = ([a["long"]] if a["long"] else []) + a["aliases"]
        if infer:
            names = names + [p for n in names for p in uniq_prefixes(n)]
        if not takes:
            sp = [[b("--") + n] for n in names] + ([[[45] + a["short"]]] if a["short"] else [])
            els.append({"kind": "flag", "id": a["id"], "last": False, "sp": sp})
            if a["short"]:
                flags.append(a)
        else:
            v = b("v")
            if a["vp"]["k"] == "int":
                v = b(str(a["vp"]["lo"]))
            if a["vp"]["k"] == "possible":
                v = a["vp"]["pvs"][0]
            sp = []
            for n in names:
                sp += [[b("--") + n + [61] + v], [b("--") + n, v]]
            if a["short"]:
                sp += [[[45] + a["short"] + v], [[45] + a["short"], v], [[45] + a["short"] + [61] + v]]
            els.append({"kind": "opt", "id": a["id"], "last": False, "sp": sp})
            if a["short"]:
                opts.append((a, v))
    # clusters: two flags; flag(s) + option
    for i, x in enumerate(flags):
        for y in flags[i + 1:]:
            els.append({"kind": "cluster", "id": x["id"] + "+" + y["id"], "last": False,
                        "sp": [[[45] + x["short"], [45] + y["short"]], [[45] + x["short"] + y["short"]]]})
    for x in flags[:2]:
        for (o, v) in opts[:2]:
            els.append({"kind": "cluster", "id": x["id"] + "+" + o["id"], "last": False,
                        "sp": [[[45] + x["short"], [45] + o["short"], v], [[45] + x["short"] + o["short"] + v],
                               [[45] + x["short"] + o["short"], v], [[45] + x["short"] + o["short"] + [61] + v]]})
    poss = [a for a in c["args"] if not (a["short"] or a["long"])]
    # an explicit `--` is documented to change routing under allow_missing_positional / `last`; not an equivalence there
    if poss and not any(a["last"] for a in poss) and not c["s"]["allow_missing_positional"]:
        tails = [[b("p")], [b("p"), b("q")], [b("p"), b("q"), b("r")]]
        if any(a["delim"] for a in poss):
            d = b(chr([a["delim"] for a in poss if a["delim"]][0]))
            tails += [[b("p") + d + b("q")], [b("x"), b("p") + d + b("q")], [b("x") + d + b("y"), b("p") + d + b("q")]]
        for vals in tails:
            sp = [vals, [b("--")] + vals]
            if len(vals) >= 2:
                sp.append([vals[0], b("--")] + vals[1:])          # the escape may also come after the first values
            els.append({"kind": "tail", "id": "tail%d" % len(vals), "last": True, "sp": sp})
    for s in c["subs"]:
        names = [s["name"]] + s["aliases"]
        if c["s"]["infer_subcommands"]:
            all_names = [n for t in c["subs"] for n in [t["name"]] + t["aliases"]] + [b("help")]
            for k in range(1, len(s["name"])):
                p = s["name"][:k]
                if sum(1 for n in all_names if n[:k] == p) == 1:
                    names.append(p)
                    break
        sp = [[n] for n in names]
        # a flag subcommand is also named by its short / long flag, alone or inside a group of short flags
        if s["long_flag"]:
            sp += [[b("--") + s["long_flag"]]] + [[b("--") + al] for al in s["long_flag_aliases"]]
        if s["short_flag"]:
            sp += [[[45] + s["short_flag"]]] + [[[45] + al] for al in s["short_flag_aliases"]]
        els.append({"kind": "sub", "id": "sub", "last": True, "sp": sp})
        if s["short_flag"]:
            subflags = [a for a in s["args"] if a["short"] and a["action"] in ("SetTrue", "SetFalse", "Count")]
            S = s["short_flag"]
            for u in subflags[:2]:
                els.append({"kind": "subcluster", "id": "sub+" + u["id"], "last": True,
                            "sp": [[[45] + S, [45] + u["short"]], [[45] + S + u["short"]]]})
                for x in flags[:2]:
                    els.append({"kind": "subcluster", "id": x["id"] + "+sub+" + u["id"], "last": True,
                                "sp": [[[45] + x["short"], [45] + S, [45] + u["short"]], [[45] + x["short"] + S, [45] + u["short"]],
                                       [[45] + x["short"], [45] + S + u["short"]], [[45] + x["short"] + S + u["short"]]]})
    # ambiguous prefixes (>= 2 candidate arguments, no exact match): must never be resolved
    if infer:
        seen = []
        for n in longs:
            for k in range(1, len(n)):
                pfx = n[:k]
                owners = {a["id"] for a in nonpos if (a["long"][:k] == pfx and a["long"]) or any(al[:k] == pfx for al in a["aliases"])}
                if len(owners) >= 2 and pfx not in longs and pfx not in seen:
                    seen.append(pfx)
                    els.append({"kind": "ambiguous", "id": "amb", "last": True, "sp": [[b("--") + pfx]]})
    for e in els:
        e["amb"] = e["kind"] == "ambiguous"
        # a short flag subcommand inside a group hands its position on to the subcommand: indices differ from the detached spelling
        e["noidx"] = e["kind"] == "subcluster" or (e["kind"] == "sub" and any(len(sp) == 1 and len(sp[0]) == 2 and sp[0][0] == 45 for sp in e["sp"]))
    return [e for e in els if len(e["sp"]) >= 1]


def f_spell():
    D = []

    def add(label, c):
        d = with_alpha(c, "spell", label)
        d["elements"] = elements_for(c)
        D.append(d)
    add("flags+opts", cmd("p", [arg("a", "a", "aa", action="SetTrue"), arg("b", "b", "bb", action="Count"),
                                arg("o", "o", "opt", aliases=["alt"]), arg("n", "n", "num", action="Append"), arg("p1", num=(0, None))]))
    add("infer", cmd("p", [arg("v1", "v", "verbose", action="SetTrue"), arg("v2", long="version2", action="SetTrue"),
                           arg("hid", long="verify-only", action="SetTrue", hide=True),
                           arg("o", "o", "output", aliases=["out-file"]), arg("tr", long="trace-level", hide=True)], infer_long_args=True))
    add("low-index-multi", cmd("p", [arg("files", num=(1, None), required=True), arg("target", required=True), arg("f", "f", "force", action="SetTrue")]))
    add("two-positionals", cmd("p", [arg("p1"), arg("p2"), arg("o", "o", "opt")]))
    add("allow-missing", cmd("p", [arg("p1"), arg("p2", required=True), arg("f", "f", action="SetTrue")], allow_missing_positional=True))
    add("int+possible", cmd("p", [arg("n", "n", "num", vp=vp_int(1, 5)), arg("m", "m", "mode", vp=vp_possible("fast", "slow"), aliases=["md"]),
                                  arg("x", "x", action="SetTrue")]))
    add("subs-alias", cmd("p", [arg("f", "f", "ff", action="SetTrue"), arg("g", "g", "gg", glob=True)],
                          subs=[cmd("test", [arg("t", "t", action="SetTrue")], aliases=["tst", "check"]), cmd("other")]))
    add("subs-infer", cmd("p", [arg("f", "f", "ff", action="SetTrue")],
                          subs=[cmd("build", aliases=["bld"]), cmd("bench"), cmd("run")], infer_subcommands=True))
    add("override-self", cmd("p", [arg("o", "o", "opt"), arg("a", "a", "aa", action="SetTrue"), arg("c", "c", action="Count")], args_override_self=True))
    add("delim+append", cmd("p", [arg("o", "o", "opt", action="Append", delim=","), arg("a", "a", action="SetTrue"), arg("p1", num=(0, None))]))
    add("hyphen-option", cmd("p", [arg("a", "a", "aa", action="SetTrue"), arg("o", "o", "opt", hyphen=True), arg("p1", num=(0, None))]))
    add("delim-positional", cmd("p", [arg("a", "a", "aa", action="SetTrue"), arg("p1", num=(0, None), delim=",")]))
    add("flag-subcommands", cmd("pac", [arg("v", "v", action="Count"), arg("q", "q", "quiet", action="SetTrue")],
                                subs=[cmd("sync", [arg("u", "u", action="SetTrue"), arg("y", "y", action="Count")], short_flag="S", long_flag="sync",
                                          long_flag_aliases=["synchronise"], short_flag_aliases=["Y"]),
                                      cmd("query", [arg("i", "i", action="SetTrue")], short_flag="Q")]))
    return D


FAMILIES["spell"] = f_spell


# ---------------------------------------------------------------- F-hist (C11)
def f_hist():
    """definitions with a small set of command lines (succeeding, failing, help/version, subcommand lines)"""
    D = []

    def add(label, c, lines):
        d = with_alpha(c, "hist", label)
        d["lines"] = [[b(t) if isinstance(t, str) else t for t in line] for line in lines]
        D.append(d)
    leaf = cmd("leaf", [arg("l", "l", "ll", action="SetTrue"), arg("lp")])
    mid = cmd("mid", [arg("m", "m", "mm", action="SetTrue"), arg("req", "r", "req", required=True)], subs=[leaf], aliases=["md"], version=True)
    other = cmd("other", [arg("o", "o", "oo"), arg("x", long="xray", action="SetTrue")])
    top = cmd("prog", [arg("g", "g", "gg", glob=True, action="SetTrue"), arg("t", "t", "tt", action="SetTrue"), arg("v", "v", "val", defaults=["d"])],
              subs=[mid, other], version=True)
    add("tree", top, [["-t"], ["--zzzzzz"], ["mid", "-r", "1", "leaf", "-l"], ["mid"], ["mid", "--zz"], ["other", "--xra"], ["--help"],
                      ["mid", "--help"], ["mid", "--version"], ["help", "mid"], ["other", "-o"], ["--tt", "--tt"], ["mid", "-r", "1", "leaf", "--bogus"],
                      # the generated help subcommand walked twice: its shape (a positional, or a tree once expanded) must not depend on history
                      ["help", "help"], ["help", "help", "mid"], ["help", "mid", "leaf"], ["help", "nope"]])
    add("flat", cmd("prog", [arg("a", "a", "aa", action="SetTrue"), arg("o", "o", "opt"), arg("p1", required=True)]),
        [["x"], [], ["-a", "x"], ["--opt"], ["--op", "v", "x"], ["-h"], ["--aa", "--aa", "x"], ["x", "y"]])
    add("infer", cmd("prog", [arg("v1", long="verbose", action="SetTrue"), arg("o", "o", "output")],
                     subs=[cmd("test", [arg("t", "t", action="SetTrue")]), cmd("temp")], infer_long_args=True, infer_subcommands=True),
        [["--verb"], ["--v"], ["te"], ["test", "-t"], ["tes", "-x"], ["t"], ["--out", "f", "temp"]])
    add("flag-subs", cmd("pac", [arg("v", "v", action="Count")],
                         subs=[cmd("sync", [arg("u", "u", action="SetTrue"), arg("pk", num=(0, None))], short_flag="S", long_flag="sync"),
                               cmd("query", [arg("i", "i", action="SetTrue")], short_flag="Q")]),
        [["-Su"], ["-S", "pkg"], ["--sync", "-u"], ["-Sx"], ["-Qi"], ["-vv", "-Q"], ["-Z"]])
    add("required-else-help", cmd("prog", [arg("f", "f", action="SetTrue")], subs=[leaf], arg_required_else_help=True, subcommand_required=True),
        [[], ["-f"], ["leaf"], ["leaf", "v"], ["nope"]])
    add("ignore-errors", cmd("prog", [arg("f", "f", action="SetTrue"), arg("o", "o", defaults=["d"])], subs=[leaf], ignore_errors=True),
        [["--bad"], ["-f", "leaf", "--bad"], ["--help"], ["-o"], ["leaf", "x", "y"]])
    add("external", cmd("prog", [arg("f", "f", action="SetTrue")], subs=[cmd("known")], allow_external_subcommands=True),
        [["ext", "a", "b"], ["known"], ["-f", "ext"], ["--nope"]])
    # help rendered for a partially visited tree: names of visited and unvisited subcommands must be computed alike
    add("flatten-help", cmd("prog", [arg("input", required=True), arg("f", "f", action="SetTrue")],
                            subs=[cmd("one", [arg("x", "x", action="SetTrue")]), cmd("two", [arg("y", "y", "yy")])],
                            flatten_help=True, subcommand_negates_reqs=True),
        [["one"], ["one", "-x"], ["--help"], ["-h"], ["two", "--help"], ["in"], ["two", "--yy"], ["nope", "--zz"]])
    # every built-in value parser, also on a global argument (globals are cloned into each subcommand at build time)
    add("typed", cmd("prog", [arg("cfg", "c", "cfg", glob=True, vp=vp_kind("path")), arg("os", "o", "os", vp=vp_kind("os")),
                              arg("n", "n", "num", vp=vp_int(0, 9)), arg("color", long="color", vp=vp_possible("always", "never")),
                              arg("yes", "y", "yes", vp=vp_kind("boolish")), arg("ne", long="ne", vp=vp_kind("nonempty"))],
                     subs=[cmd("sub", [arg("p", "p", "path", vp=vp_kind("path")), arg("s", "s", action="SetTrue")])]),
        [["--cfg", "x"], ["sub", "--cfg", "x"], ["--cfg", "x", "sub", "-p", "y"], ["-n", "3"], ["-n", "x"], ["--color", "never"], ["--color", "nevr"],
         ["-y", "on"], ["--ne", ""], ["-o", "v", "sub", "-s"], ["sub", "-p"]])
    return D


FAMILIES["hist"] = f_hist


# ---------------------------------------------------------------- F-help (C12)
def help_shapes(i, attrs):
    """argument shapes with sentinel names; i makes them unique"""
    sh = "abcdefg"[i]
    lg = "zql%dx" % i
    idn = "zqa%d" % i
    hw = "hw%da hw%db hw%dc hw%dd hw%de" % (i, i, i, i, i)
    S = [
        lambda: arg(idn, sh, None, action="SetTrue", help=hw, **attrs),
        lambda: arg(idn, None, lg, action="SetTrue", help=hw, **attrs),
        lambda: arg(idn, sh, lg, action="SetTrue", help=hw, **attrs),
        lambda: arg(idn, sh, None, action="Count", help=hw, **attrs),
        lambda: arg(idn, None, lg, action="Count", help=hw, **attrs),
        lambda: arg(idn, sh, None, help=hw, **attrs),
        lambda: arg(idn, None, lg, help=hw, **attrs),
        lambda: arg(idn, sh, lg, help=hw, **attrs),
        lambda: arg(idn, sh, lg, num=(0, 1), help=hw, **attrs),
        lambda: arg(idn, None, lg, req_eq=True, num=(0, 1), help=hw, **attrs),
        lambda: arg(idn, sh, lg, num=(1, None), help=hw, **attrs),
        lambda: arg(idn, help=hw, **attrs),
        lambda: arg(idn, num=(0, None), help=hw, **attrs),
        lambda: arg(idn, sh, lg, vp=vp_possible("pva%d" % i, "pvhid%d" % i, "pvc%d" % i, hide=("pvhid%d" % i,), helps={"pva%d" % i: "pvhelp%d" % i}), help=hw, **attrs),
        lambda: arg(idn, required=True, help=hw, **attrs),
        lambda: arg(idn, sh, None, action="Count", **attrs),
    ]
    return S


def f_help(seed=1, triples=250):
    rnd = random.Random(seed)
    D = []
    nshapes = 16
    attr_choices = [{}, {}, {}, {"hide": True}, {"hide_short": True}, {"hide_long": True}, {"nlh": True},
                    {"heading": "Zq Extra"}, {"heading": "Zq Extra", "hide": True}, {"heading": "Zq More", "hide_short": True}]

    def mk(shapes, label, settings=None, subs=()):
        args = []
        positional_multi_seen = False
        for pos, k in enumerate(shapes):
            attrs = rnd.choice(attr_choices)
            a = help_shapes(pos, attrs)[k]()
            if not (a["short"] or a["long"]):
                if positional_multi_seen:
                    continue   # a positional after a multi-value positional is rejected by the gate
                if a["nset"] and a["nmax"] >= INF:
                    positional_multi_seen = True
            args.append(a)
        # required positionals first (gate), keep relative order otherwise
        args.sort(key=lambda a: 0 if (not (a["short"] or a["long"]) and a["required"]) else 1)
        c = cmd("prog", args, subs=list(subs), **(settings or {}))
        d = {"fam": "help", "label": label, "cmd": c, "alphabet": [], "env": {}}
        D.append(d)
    for k in range(nshapes):
        mk([k], "single/%d" % k)
    for a_ in range(nshapes):
        for b_ in range(nshapes):
            mk([a_, b_], "pair/%d-%d" % (a_, b_), {"next_line_help": True} if (a_ * nshapes + b_) % 11 == 0 else None)
    for t in range(triples):
        ks = [rnd.randrange(nshapes) for _ in range(3)]
        mk(ks, "triple/%s" % "-".join(map(str, ks)))
    # trees: hidden subcommands, flag subcommands, nested
    leafv = cmd("zsleaf", [arg("zqa5", "f", "zql5x", action="SetTrue", help="hw5a hw5b")], about="about leaf")
    hid = cmd("zshidden", [arg("zqa6", "g", "zql6x", help="hw6a")], hide=True, about="hidden about")
    mid = cmd("zsmid", [arg("zqa4", "e", "zql4x", action="Count", help="hw4a hw4b"), arg("zqa3", help="hw3a", hide=True)],
              subs=[leafv, hid], short_flag="M", long_flag="zsmidflag", about="about mid mid mid")
    for k in (0, 3, 7, 13):
        mk([k, (k + 5) % nshapes], "tree/%d" % k, subs=[mid, leafv, hid])
    # equal display order with shorts that differ only by case; every possible value hidden (one with help)
    for (s1, s2) in (("c", "C"), ("v", "V"), ("x", "y")):
        c = cmd("prog", [arg("zqa0", s1, "zql0x", action="SetTrue", help="hw0a hw0b", disp=7), arg("zqa1", s2, "zql1x", action="SetTrue", help="hw1a", disp=7),
                         arg("zqa2", s2.lower() if s2.lower() != s1 else "k", None, help="hw2a", disp=7) if False else arg("zqa2", "k", None, help="hw2a", disp=7)],
                version=(s2 == "V" and False))
        D.append({"fam": "help", "label": "same-order/%s%s" % (s1, s2), "cmd": c, "alphabet": [], "env": {}})
    c = cmd("prog", [arg("zqa0", "v", "zql0x", action="SetTrue", help="hw0a", disp=999)], version=True)
    D.append({"fam": "help", "label": "same-order/builtin-V", "cmd": c, "alphabet": [], "env": {}})
    c = cmd("prog", [arg("zqa0", "m", "zql0x", help="hw0a hw0b", vp=vp_possible("pvhid0", "pvhid1", hide=("pvhid0", "pvhid1"), helps={"pvhid0": "secret"})),
                     arg("zqa1", "n", "zql1x", action="SetTrue", help="hw1a")])
    D.append({"fam": "help", "label": "all-possible-values-hidden", "cmd": c, "alphabet": [], "env": {}})
    return D


FAMILIES["help"] = f_help


# ---------------------------------------------------------------- F-man (C19)
def f_man():
    def a(id, short=None, long=None, hide=False, help="", heading="", takes_value=False, pvs=(), hide_pv=False, env=""):
        return {"id": b(id), "short": b(short) if short else [], "long": b(long) if long else [], "hide": hide, "help": b(help),
                "heading": b(heading), "takes_value": takes_value,
                "pvs": [{"name": b(n), "hide": h, "help": b(hp)} for (n, h, hp) in pvs], "hide_pv": hide_pv, "env": b(env)}

    def s(name, hide=False, about=""):
        return {"name": b(name), "hide": hide, "about": b(about)}

    def m(label, args=(), subs=(), about="", after_help="", author="", version="", no_help_flag=False):
        return {"fam": "man", "label": label, "alphabet": [], "env": {},
                "md": {"name": b("prog"), "about": b(about), "after_help": b(after_help), "author": b(author), "version": b(version),
                       "no_help_flag": no_help_flag, "args": list(args), "subs": list(subs),
                       # the Man builder's own overrides of the .TH arguments ([] = not overridden)
                       "ov_title": [], "ov_section": [], "ov_date": [], "ov_source": [], "ov_manual": []}}
    D = [
        m("bare", about="about text"),
        m("flags+opts", [a("zqverbose", "v", "zqverbose", help="help v"), a("zqout", "o", "zqout", takes_value=True, help="help o", env="ZQ_ENV"),
                         a("zqhid", None, "zqhid", hide=True, help="hidden help"), a("zqpos", help="help pos")],
          about="line one\n\nline three", author="An Author", version="1.0"),
        m("headings", [a("zqa", "a", "zqa", heading="First", help="ha"), a("zqb", "b", "zqb", heading="Second", help="hb"),
                       a("zqc", None, "zqc", heading="First", help="hc"), a("zqh", None, "zqh", heading="First", hide=True, help="hh"),
                       a("zqd", "d", None, help="hd")], after_help="after\nhelp", version="2"),
        m("possible-values", [a("zqmode", "m", "zqmode", takes_value=True, help="mode help",
                                pvs=[("zqfast", False, "fast help"), ("zqslow", False, ""), ("zqsecret", True, "secret")]),
                              a("zqlvl", None, "zqlvl", takes_value=True, pvs=[("zqlo", False, ""), ("zqhi", False, "")]),
                              a("zqnone", None, "zqnone", takes_value=True, pvs=[("zqx", True, "")], help="h")]),
        m("subcommands", [a("zqf", "f", "zqf", help="hf")], [s("zqsub", about="sub about\nsecond"), s("zqhidden", hide=True, about="x"), s("zqother")],
          about="about", author="me", version="3"),
        m("no-help-flag", [a("zqpos1"), a("zqhidpos", hide=True)], no_help_flag=True, about="x"),
    ]
    return D


FAMILIES["man"] = f_man


# ---------------------------------------------------------------- F-gen (C16)
def f_gen():
    def o(short=None, long=None, lvaliases=(), takes=False, pvs=()):
        return {"short": b(short) if short else [], "long": b(long) if long else [], "lvaliases": [b(x) for x in lvaliases],
                "takes": takes or bool(pvs), "pvs": [{"name": b(n), "hide": h} for (n, h) in pvs]}

    def pos(id, pvs=(), required=False):
        return {"id": b(id), "pvs": [{"name": b(n), "hide": h} for (n, h) in pvs], "required": required}

    def t(name, opts=(), subs=(), valiases=(), posl=(), hide=False, version=False):
        return {"name": b(name), "valiases": [b(x) for x in valiases], "opts": list(opts), "pos": list(posl), "subs": list(subs),
                "hide": hide, "version": version}

    def g(label, tree):
        return {"fam": "gen", "label": label, "alphabet": [], "env": {}, "tree": tree}
    leaf = t("zleaf", [o("l", "zleafopt")])
    D = [
        g("flat", t("prog", [o("v", "zverbose"), o(None, "zcolor", pvs=[("zalways", False), ("znever", False), ("zsecret", True)]), o("o", "zout", takes=True)],
                    posl=[pos("zfile")])),
        g("two-levels-aliases", t("prog", [o("v", "zverbose", lvaliases=["zverb"])],
                                  [t("zadd", [o("f", "zforce")], valiases=["zplus"]), t("zrm", [o("r", "zrecursive")], hide=True), t("zlist")], version=True)),
        g("three-levels", t("prog", [o("g", "zglobal")], [t("zmid", [o("m", "zmidopt")], [leaf, t("zother", [o("x", "zotheropt", takes=True)])], valiases=["zm"]),
                                                            t("ztop2", posl=[pos("zmode", pvs=[("zfast", False), ("zslow", False)])])])),
        g("hyphen-names", t("prog", [], [t("a-b", [o("p", "zab")]), t("a_b", [o("q", "zaub")]), t("a", [o("r", "za")], [t("c", [o("s", "zac")])])])),
        g("prefix-siblings", t("prog", [], [t("zadd", [o("p", "zaddopt")]), t("zadd-remote", [o("q", "zaddremoteopt")]), t("zad", [o("r", "zadopt")])])),
        g("optional-value-pvs", t("prog", [{"short": b("c"), "long": b("zcolour"), "lvaliases": [], "takes": True, "optional": True,
                                            "pvs": [{"name": b("zauto"), "hide": False}, {"name": b("zon"), "hide": False}]}],
                                  [t("zsub", [{"short": [], "long": b("zwhen"), "lvaliases": [], "takes": True, "optional": True,
                                               "pvs": [{"name": b("zearly"), "hide": False}, {"name": b("zlate"), "hide": False}]}])])),
        # a value hint next to possible values: the values still have to be offered
        g("hint-with-pvs", t("prog", [{"short": b("m"), "long": b("zmode"), "lvaliases": [], "takes": True, "hint": "other",
                                       "pvs": [{"name": b("zappend"), "hide": False}, {"name": b("zmirror"), "hide": False}]}],
                             [t("zsync", [{"short": [], "long": b("zdest"), "lvaliases": [], "takes": True, "hint": "dir",
                                           "pvs": [{"name": b("zhere"), "hide": False}, {"name": b("zthere"), "hide": False}]},
                                          {"short": [], "long": b("zfile"), "lvaliases": [], "takes": True, "hint": "file", "pvs": []}])])),
        # a hand-written `help` subcommand (the generated one disabled) still gets the global options
        g("user-help-subcommand", dict(t("prog", [dict(o("g", "zglobal"), **{"global": True})],
                                         [t("help", [o("x", "zhelpopt")]), t("zrun", [o("r", "zrunopt")])]), nohelpsub=True)),
        # recorded witness classes
        g("mangle-collision", t("prog", [], [t("my-sub", [o("p", "zmysubopt")]), t("my", [o("q", "zmyopt")], [t("sub", [o("r", "zsubopt")])])])),
        g("double-underscore-name", t("prog", [], [t("a__b", [o("p", "zaubopt")]), t("zc")])),
    ]
    for d in D:
        def fill(x):
            for op in x["opts"]:
                op.setdefault("optional", False)
                op.setdefault("hint", "")
                op.setdefault("global", False)
            x.setdefault("nohelpsub", False)
            for sx in x["subs"]:
                fill(sx)
        fill(d["tree"])
    return D


FAMILIES["gen"] = f_gen
